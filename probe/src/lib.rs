//! Compile-time part of C20: flat and deep expressions over thread-safe data types are Send + Sync.
//! This crate only has to type-check; `/verif/run C20` reports a compile error that mentions these
//! bounds as a violation.
use exmex::{DeepEx, FlatEx, FlatExVal, FloatOpsFactory, NumberMatcher, Val, ValMatcher, ValOpsFactory};

fn send_sync<T: Send + Sync>() {}

pub fn assert_all() {
    send_sync::<FlatEx<f64>>();
    send_sync::<FlatEx<f32>>();
    send_sync::<DeepEx<'static, f64>>();
    send_sync::<DeepEx<'static, f32, FloatOpsFactory<f32>, NumberMatcher>>();
    send_sync::<FlatExVal<i32, f64>>();
    send_sync::<DeepEx<'static, Val<i32, f64>, ValOpsFactory<i32, f64>, ValMatcher>>();
    send_sync::<FlatEx<i64, Custom>>();
    send_sync::<DeepEx<'static, i64, Custom>>();
    send_sync::<exmex::ExError>();
}

#[derive(Clone, Debug)]
pub struct Custom;
impl exmex::MakeOperators<i64> for Custom {
    fn make<'a>() -> Vec<exmex::Operator<'a, i64>> {
        vec![exmex::Operator::make_bin("+", exmex::BinOp { apply: |a, b| a + b, prio: 0, is_commutative: true })]
    }
}
