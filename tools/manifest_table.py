add("C01", "E1",
    "bounded-exhaustive enumeration of expression trees x renderings x operator tables on the real parser/evaluator with a free-term-algebra data type, compared with a reference parser",
    "Every expression tree up to the stated size over a universal operator table (every priority-order / commutativity / identity / sign-like configuration that many operator occurrences can tell apart), every rendering within the deviation bound, through parse and parse_wo_compile; the symbolic result is the applied tree, so equality modulo AC with the reference tree decides all data types and variable values for those programs. Plus deterministic chains of 17..200 operands.",
    "Trusted: rustc/cargo, the reading of the documentation encoded in harness/src/spec.rs (lexer, parser, renderer; cross-checked on every case), parametricity of the library in the data type. Sizes beyond the bound are not covered.",
    "DESIGN.md §3 C01")
