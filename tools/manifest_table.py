add("C01", "E1",
    "bounded-exhaustive enumeration of expression trees x renderings x operator tables on the real parser/evaluator with a free-term-algebra data type, compared with a reference parser",
    "Every expression tree up to the stated size over a universal operator table (every priority-order / commutativity / identity / sign-like configuration that many operator occurrences can tell apart), every rendering within the deviation bound, through parse and parse_wo_compile; the symbolic result is the applied tree, so equality modulo AC with the reference tree decides all data types and variable values for those programs. Plus deterministic chains of 17..200 operands.",
    "Trusted: rustc/cargo, the reading of the documentation encoded in harness/src/spec.rs (lexer, parser, renderer; cross-checked on every case), parametricity of the library in the data type. Sizes beyond the bound are not covered.",
    "DESIGN.md §3 C01")
add("C02", "E1",
    "bounded-exhaustive enumeration of literal-rich expression trees through five folding pipelines + all token strings up to a length bound for the folded/unfolded differential, symbolic data type, reference tree oracle",
    "Every tree up to the stated size with any mix of literals, constants and variables through parse, parse_wo_compile, re-compile (twice) and DeepEx::parse; a literal combined with a wrong neighbour changes the symbolic term, so equality modulo AC with the reference tree decides 'same function of the variables' for all assignments. All token strings up to length L decide the parse/parse_wo_compile differential on sloppy texts.",
    "As C01. Commutative flags are only set on operators the oracle treats as AC (the property's own precondition).",
    "DESIGN.md §3 C02")
add("C03", "E1+E2",
    "bounded-exhaustive enumeration of trees through flat/deep parsers and all conversion compositions, closure of the to_deepex/from_deepex state graph per tree, operator listings against bounds from the reference tree, and all token strings up to a length bound for flat vs deep",
    "Every tree up to the stated size through FlatEx::parse, DeepEx::parse, to_deepex (compiled and uncompiled), from_deepex and compositions, each compared with the reference tree (variables + symbolic value modulo AC); the conversion graph is iterated to its structural fixpoint (decides 'any number of times'); sorted/duplicate-free listings with must/may bounds; all strings up to length L that both parsers accept.",
    "As C01; only jointly accepted strings are compared.",
    "DESIGN.md §3 C03")
add("C08", "E1",
    "bounded-exhaustive enumeration of trees in which every subset of the alphabetic binary nodes is written in call form, at every position, symbolic data type, reference tree oracle",
    "Every tree up to the stated size over a table with alphabetic binary operators on three priority levels (also all-equal and 97..99 priorities); for every subset of call-form nodes (plus one further rendering deviation for the small sizes) parse, parse_wo_compile and DeepEx::parse must accept and yield the reference tree. Nesting in first and second arguments, under unary operators, inside extra parentheses and as operands of infix operators all arise from the tree enumeration itself.",
    "As C01.",
    "DESIGN.md §3 C08")
add("C07", "E1",
    "exhaustive single-point damage of every enumerated well-formed text + all token strings up to a length bound, classified by a reference lexer/classifier, against every parser entry point of three languages (symbolic, default f64, value type)",
    "Every rendering (all call-form subsets) of every tree up to the stated size x every deletion/insertion of one parenthesis at every place, every appended binary operator, an extra operand on either side of every operand, six illegal characters at every character position; texts the reference classifier puts into one of the five classes of the property must be Err (not Ok, not a panic) for FlatEx::parse, parse_wo_compile, DeepEx::parse, eval_str, parse_val. Damages that yield well-formed or unclassified texts are skipped and counted.",
    "Trusted: the reference lexer and the token-level classifier in harness/src/spec.rs (classes: empty, unbalanced, trailing operator, unknown character sequence, operand count).",
    "DESIGN.md §3 C07")
add("C13", "E1",
    "exhaustive enumeration of all character strings up to a length bound over targeted lexical alphabets and prefix-related operator tables, judged by a reference lexer/parser",
    "All strings of length <= L over eight lexical alphabets (unary names that are prefixes of each other, log/log2/log10, symbolic prefixes <,<=,<<,=,==, constants incl. Greek, sign chains, braces, Greek identifiers, literal spellings with the default number matcher and the real f64 table): whenever the reference reads a text as well-formed, parse / parse_wo_compile / DeepEx::parse must accept it with the same variables and the same symbolic (resp. numeric) value; texts with an unknown character sequence must be rejected.",
    "Trusted: the reference lexer (documented rules) in harness/src/spec.rs. Texts malformed for non-lexical reasons, unclosed braces are skipped and counted.",
    "DESIGN.md §3 C13")
add("C14", "E1",
    "exhaustive enumeration of application orders (schedules of in-place reductions): all k! orders for chains up to 9 operands, every (operator index, consumed-run) tracker situation and all 7! window orders across the 64-operand word boundaries, structured orders at every length up to 257",
    "Chains of distinct variables whose operator priorities impose the order; evaluated with the symbolic data type through FlatEx (single-word / slice tracker), DeepEx (slice tracker) and to_deepex (own tracker); the result must be the fully reduced chain as the reference parser builds it (each operand exactly once, no placeholder).",
    "As C01. Tracker situations are characterised by (index, consumed run on the left, consumed run right of the next operand) - see DESIGN.md for the argument that get_next must answer 1 in every reachable state.",
    "DESIGN.md §3 C14")
add("C15", "E1",
    "exhaustive enumeration of variable repetition patterns (all operand sequences up to length 9 under four operator patterns, all small trees) on a clone-counting, default-detecting data type",
    "For every enumerated expression (folded, unfolded and deep-derived flat form) eval_vec and eval_iter must return exactly eval's symbolic result, which equals the reference; no moved-out placeholder inside the result; a variable occurring exactly once is not cloned; wrong lengths are errors.",
    "As C01; clone counting in the harness data type's Clone impl.",
    "DESIGN.md §3 C15")
add("C04", "E1",
    "exhaustive enumeration of variable-name occurrence sequences over a name universe chosen to separate orderings, all slice lengths, four expression forms, plus derived expressions over a pool",
    "All occurrence sequences up to length 6 over 15 names (case, underscore, digits, Greek, braced names with blanks, digits, emoji, operator look-alikes, {a}=a) under three operator patterns; var_names must equal the BTreeSet order of the distinct names and the symbolic value must bind the n-th value to every occurrence of the n-th name; every slice length 0..n+2 through eval/eval_relaxed/eval_vec/eval_iter on flat, uncompiled, deep and deep-derived flat forms; 15-20 distinct variables; operator application, substitution and differentiation list the sorted union.",
    "As C01; Rust string order = String::cmp.",
    "DESIGN.md §3 C04")
add("C06", "E4",
    "crash-contained exhaustive sweeps in worker subprocesses: all token strings up to a length bound over alphabets covering every token class (blank-separated and concatenated), all single/double token edits of well-formed texts, deterministic families of nesting depth 1..100 and up to 1000 tokens, x every parsing entry point x the follow-up calls",
    "Every enumerated text goes through FlatEx::parse, parse_wo_compile, eval_str, DeepEx::parse, parse_val, line_2_statement(_val) and serde deserialisation; accepted texts are evaluated, converted both ways, unparsed, listed, operated on, substituted and differentiated. Panics are caught per call; aborts, stack overflows (explicit 8 MiB stack) and hangs kill the worker and are attributed to the case (one process per deep case, bisection elsewhere) and confirmed in a fresh process.",
    "Trusted: process isolation and the watchdog of harness/src/sweep.rs. Known findings (stack overflow in partial() for >= 110 operands / >= 54 nesting levels) are listed in known_findings.jsonl.",
    "DESIGN.md §3 C06")
add("C16", "E1",
    "exhaustive operator x operand-catalogue sweep (all ordered pairs, three routes) against an independent three-valued reference interpreter, plus bounded-exhaustive trees over the real value table",
    "Every operator of ValOpsFactory::<i32,f64> on every catalogue value / ordered pair (about 110 values incl. MIN/MAX, NaN, infinities, signed zeros, 2^31 boundaries, bools, arrays of length 0..5, none, error) via function pointer, via variables at evaluation time and via literal spellings folded at parse time must return exactly what the documentation promises or an error value where it demands one; all trees up to the stated size over the real table (priorities and flags read from the factory, incl. if/else, comparisons, vector operators) must agree with reference parser + reference interpreter.",
    "Trusted: harness/src/valref.rs (reading of the documentation; situations it leaves open are 'unspecified' and only checked for totality).",
    "DESIGN.md §3 C16")
add("C17", "E1",
    "exhaustive operator x operand-catalogue sweep for totality (no panic) and mandatory error values, three routes, two instantiations",
    "Every unary operator x every catalogue value and every binary operator x every ordered pair for ValOpsFactory::<i32,f64> (function pointer, evaluation time, parse-time folding) and ValOpsFactory::<i64,f32> (function pointer): no call may panic, and overflow, invalid casts, negation/abs of the smallest integer, MIN % -1 and wrong operand kinds must yield Val::Error.",
    "Panics are unwinding (overflow-checks on) and caught per call.",
    "DESIGN.md §3 C17")
add("C19", "E1",
    "exhaustive argument sweep of every default float operator: all 2^32 f32 bit patterns for unary operators (thorough), bit-pattern lattices for f64 and for binary operators, special-value catalogue with all ordered pairs, directly and through parsed expressions",
    "Function pointers and constants from FloatOpsFactory::<f32|f64>::make(), and the same names through FlatEx/DeepEx in function, juxtaposed, infix and call form, compared bit-for-bit (NaN = NaN) with an independent name -> std primitive table with the documented argument order; the set of names itself is checked against the documented list.",
    "Trusted: the harness' name -> primitive table (harness/src/c19.rs); libm determinism within a process. min/max on two zeros / NaN are skipped (not pinned down by std).",
    "DESIGN.md §3 C19")
add("C05", "E1",
    "bounded-exhaustive enumeration of differentiable expression trees x variable index x order x provenance, compared with forward-mode jets on the reference tree: exactly over Q (exact rational data type run through the library) on the rational fragment, with running rounding-error bounds (error-bounded float data type run through the library) elsewhere",
    "Every tree up to the stated size over + - * / ^, unary +/-, the 18 differentiable functions and the operators without a rule; FlatEx::parse, DeepEx::parse, to_deepex, from_deepex provenances; first order everywhere, second order (all index pairs) for the small sizes. On the rational fragment the derivative expression is evaluated in exact arithmetic on a rational grid and must equal the exact derivative; elsewhere a violation is a difference beyond 16x the summed first-order rounding bounds at a conclusive point (>= 3 of 8 fixed points needed). Operators without a rule above the variable must make partial() fail.",
    "Trusted: jet rules in harness/src/numty.rs, libm accuracy (2-4 ulp), num::BigRational. Points outside the domain / with large bounds are inconclusive and counted.",
    "DESIGN.md §3 C05")
add("C09", "E2",
    "explicit-state exploration (stateright BFS) of differentiation histories on real flat/deep expressions: state = (base expression, form, index history), dedup on the structural dump, invariants evaluated in every state",
    "From every enumerated base expression (flat and deep) all index histories of length 0..4 over 0..n_vars+1 are explored; in every state the variable list equals the antiderivative's and the same slice evaluates; partial_iter / partial_iter_relaxed of the history equals the sequential partials, partial_nth equals repeated partial, order zero is the identity, mixed partials agree in either order (structurally, exactly over Q, or within rounding bounds); out-of-range indices are rejected by partial, partial_nth and partial_iter before a single number is constructed.",
    "Trusted: stateright's visited-set bookkeeping; work is observed through a counter on From<u8>/From<f32> of the harness data types.",
    "DESIGN.md §3 C09")
add("C18", "E1",
    "bounded-exhaustive enumeration of well-typed value-table trees (mixed int/float arithmetic, elementary functions, nested `f if c else g` with arithmetic around) x variable index, compared with branch-wise forward-mode jets over the reference interpreter of the value type",
    "Every enumerated tree is differentiated with parse_val(text).partial(i) and evaluated at float-valued points away from every branch boundary; the reference evaluates the comparison conditions with the C16 reference interpreter, selects the branch and propagates jets (with rounding bounds) through the selected branch only; comparison conditions keep their value, `if`/`else` are differentiated per operand.",
    "Trusted: harness/src/valref.rs and the jet rules; points near a boundary (1e-3), with non-numeric reference or extreme magnitudes are skipped and counted. Conditions without a variable are outside the property's quantifier and not generated.",
    "DESIGN.md §3 C18")
add("C10", "E2",
    "explicit-state exploration (stateright BFS, root set partitioned over single-threaded checkers) of operator-application histories over expression pools, reference tree / exact rational value in lock-step",
    "(i) operate_unary/operate_binary by name on FlatEx and DeepEx with the symbolic data type: every history up to the depth bound over a pool with overlapping and disjoint variable sets yields the sorted union of the variables and the reference term modulo AC; an unknown name is an error. (ii) + - * / pow, neg on DeepEx and by-name application on FlatEx over exact rationals: the result evaluates, on a rational grid incl. 0 and 1, exactly to the unsimplified reference wherever that is defined and no power has base zero with a non-positive exponent (neutral-element shortcuts).",
    "Trusted: stateright's visited set (dedup key = structural dump + depth); grid of 5 rational values per variable.",
    "DESIGN.md §3 C10")
add("C11", "E2",
    "explicit-state exploration of substitution histories: every partial map from an expression's variables into a replacement pool, then repeated substitution, on flat and deep expressions, against simultaneous substitution on the reference tree",
    "For every enumerated base expression and form, every partial map (renaming, swap, constant, self-referential, multi-variable, new-variable replacements, empty map) is applied with Calculate::subs; the result must list the sorted union of untouched and replacement variables and evaluate to the simultaneously substituted reference term (replacements are not re-substituted); a second and third round explores repeated substitution.",
    "As C01.",
    "DESIGN.md §3 C11")
add("C12", "E2",
    "explicit-state exploration of every expression reachable by parse + up to k transformations (conversion, operator application, substitution, differentiation); in every state unparse -> parse is iterated to its fixpoint and serde_json round-trips the flat form",
    "A parsed FlatEx must print its source text; the printed text of every reached state must parse back (same form) with the same variables and the same value (symbolically modulo AC for the symbolic data type whose Debug/FromStr round trip is total; numerically for f64 restricted to plain-decimal literals); the unparse -> parse map is iterated to closure; serde_json::to_string / from_str must preserve every flat expression.",
    "Known finding: derivatives keep variables that no longer occur in the printed text (listed in known_findings.jsonl).",
    "DESIGN.md §3 C12")
add("C20", "E3+E2",
    "stateless exploration of thread schedules of real exmex code under a controlled scheduler (shuttle coroutines, custom preemption-bounded depth-first scheduler, bound iterated 0..3/4), plus explicit-state exploration of sequential call histories and compile-time Send+Sync assertions",
    "Bodies of 2-3 threads that evaluate a shared Arc<FlatEx>/Arc<DeepEx> (borrowing and consuming), parse the same and different texts with two operator factories that share operator names (flat, deep, default f64 and value tables with their lazily initialised global regexes), and convert/operate on a clone while others evaluate the original; every call-back into the harness data type, operator factory and literal matcher is a scheduling point; ALL schedules with at most b preemptions are executed and every thread's observations must equal the schedule-independent reference; the shared expression's structural dump must not change. All call sequences up to length 4/5 over 12 jobs in one process detect hidden state between calls. Each schedule of the <=1-preemption space of the default-table body is replayed in a fresh process (first-use initialisation). /verif/probe asserts Send + Sync.",
    "Code between two call-backs runs atomically; lazy_static's Once is trusted; memory-ordering effects and data races on plain memory inside one segment are outside a cooperative scheduler's view. A recorded schedule is replayed twice and must give identical observations; divergence while replaying a prefix is a hard error.",
    "DESIGN.md §3 C20")

# extensions added while testing the checks against seeded defects (DESIGN.md §10)
def extend(pid, technique_more, text_more):
    e, tq, tx, note, ref = CHECKS[pid]
    CHECKS[pid] = (e, tq + "; " + technique_more, tx + " " + text_more, note, ref)

DERIVED = "Explicit-state exploration of derived-expression histories (harness/src/derived.rs: partial, partial_nth, convert, operate_unary/binary, subs, subs-into-a-carrier on flat and deep expressions over error-bounded floats, from parsed and from already differentiated roots) in lock-step with a reference tree + declared variable list + reference differentiator; this check judges the steps its property speaks about."
extend("C02", "macro-token string differential", "The string differential also runs over 'macro tokens' (whole parenthesised groups as one symbol) so that short sequences reach sloppy texts such as a prefix operator followed by groups.")
extend("C03", "macro-token string differential; explicit-state exploration of derived-expression histories with the conversion steps judged", "Flat vs deep on all sequences of macro tokens (whole groups as one symbol). " + DERIVED)
extend("C04", "explicit-state exploration of derived-expression histories (variable lists of every step judged)", DERIVED + " eval_vec / eval_iter binding and arity are checked as well.")
extend("C05", "exact rational powers and evaluation points outside the positive quadrant", "Points with negative coordinates are included; the exact (rational) comparison covers rational exponents on perfect powers, which decides sign errors that the error-bounded floats cannot.")
extend("C06", "value-type boundary operands for 32- and 64-bit integers under a per-case watchdog; derived-expression histories with only panics judged", "A family of boundary literals / variables for every unary and the integer binary operators of the value type (i32 and i64) runs in small chunks with an 8 s per-case watchdog (hangs are reported); non-ASCII numerics are in the token alphabet. " + DERIVED)
extend("C07", "array literals with validated contents", "The value-type language includes array literals; the reference lexer accepts an array literal only if every element is a number or boolean.")
extend("C08", "call form of symbolic and sign-like operators; variable names containing parentheses", "Campaigns all-ops-* put every binary operator (symbolic and sign-like ones too) into call form; a campaign uses braced variable names that contain parentheses and commas.")
extend("C09", "out-of-range index catalogue around 64 / 128 / 2^32 / usize::MAX with aliases of valid indices; derived-expression histories with the differentiation steps judged", DERIVED)
extend("C10", "second operator factory (same operators, reverse table order) replayed on the same thread; derived-expression histories with the application steps judged", "Every history of the by-name model is also replayed with a second factory on the same thread. " + DERIVED)
extend("C11", "second pair of commutative operators per priority; derived-expression histories with the substitution steps judged", "A model over two pairs of commutative operators of equal priority (+ |, * &). " + DERIVED)
extend("C12", "serde through from_str, from_reader and from_value; variable names that need JSON escapes; constants listed before operators in the table", "The serde round trip uses three deserialisation routes; the symbolic table lists constants before and between operators.")
extend("C13", "tables with names containing underscores and with more than 64 operators", "Families l (names with underscores) and m (69 operators, unary operator and constant behind index 63).")
extend("C14", "operand modes (few repeated variables, literals)", "Structured orders run with four operand modes: distinct variables, three variables in rotation, literals alternating with a variable, one variable.")
extend("C15", "many-variable texts (16..200 variables), shuffled repeated occurrences, evaluate-compile-evaluate history, iterators without exact size hint", "Also texts with up to 200 variables and repeats at distinguished positions, two-pass / reversed / strided occurrence orders, the history parse_wo_compile - eval_vec - compile - eval_vec, and eval_iter from filtering and from_fn iterators (right and wrong lengths).")
extend("C16", "integer-width sweep (i8, i16, i64, i128) against exact BigInt arithmetic", "Integer operators (- abs fact + - * / % ^ << >> to_int) over boundary operands of four further integer widths are compared with exact integer arithmetic (fits -> exact value, else error value).")
extend("C17", "integer-width sweep (i8, i16, i64, i128): totality and missing errors", "The width sweep of C16 is judged for panics and missing error values here.")
extend("C18", "deep / converted forms, arithmetic chains inside conditions, all six comparisons, relaxed differentiation modes at integer points", "All families run through flat, deep and converted forms; conditions contain arithmetic chains; all six comparisons with every pair of leaves; conditions with an operator without derivative rule through partial_relaxed (PerOperand / None).")
extend("C19", "4 neighbouring representable values on either side of every catalogue entry", "The special-value catalogue is closed under +-1..4 ulp neighbours (domain edges, ties, exponent 0.5 +- ulp).")
extend("C20", "uncompiled shared expressions with compiled clones, two integer widths of the value type, six pattern-based literal matchers, two operator tables with prefix-related names, fresh-process replays", "Jobs also cover: eval_vec on an uncompiled shared expression followed by compile() of a clone; the value type over i32 and i64 in one process; six literal_matcher_from_pattern! matchers used in rotation on one thread; two tables over one data type with `*` and `**` in different slots.")
extend("C03", "DFDF pipeline (deep -> flat -> deep -> flat) in every campaign", "Pipelines include repeated conversion in both directions (DFDF) on every tree and on the large families.")
extend("C05", "one-level expressions with 19..64 mixed-priority operators", "A family of large single-level texts (19..64 binary operators of mixed priority, non-commutative ties) is differentiated in every form and compared over exact rationals.")
extend("C06", "`=` in the token alphabets of the statement-line entry points", "The statement entry points are also driven with `=` as a token at every position.")
extend("C09", "base expressions with 18..19 variables (beyond the inline capacity of the variable lists); derived bases with signed groups", "Index arithmetic is also explored on four base expressions with 18..19 variables whose names are shared between the operands of a product / sum; derived-expression histories start also from bases with a signed group (x*(-(y*z))).")
extend("C10", "uncompiled flat form; overloaded minus and named helpers in the derived-expression histories", "The by-name model also runs on parse_wo_compile expressions; derived-expression histories include the overloaded minus and the helpers cos() / exp().")
extend("C13", "second factory (same names, reverse order) parsed on the same thread before every text; differential over all parsing entry points", "Three families parse a text with a reverse-order twin factory first; a differential compares FlatEx::parse, parse_wo_compile, DeepEx::parse, exmex::parse and eval_str on every text.")
extend("C16", "component access on arrays of 0..300 elements per integer width", "The width sweep includes `.` (component access) with arrays longer than the largest i8 / i16.")
extend("C17", "component access on arrays of 0..300 elements per integer width", "The width sweep includes `.` (component access) with arrays longer than the largest i8 / i16.")
extend("C18", "uncompiled flat form", "All families also run on FlatExVal::parse_wo_compile expressions.")
extend("C20", "a 270-level shared deep expression; two factory types with the same type name", "Bodies also share one 270-level deep expression between threads, and use two operator factories whose types have the same name (sibling blocks) with different operator order.")
extend("C03", "operator listings of derived expressions", "Every expression a conversion history ends in has its three operator listings judged against its own printed text (sorted, nothing absent from the text, every operator applied to a variable-dependent operand).")
extend("C06", "differentiate-every-variable families", "Families of texts with an operator inside a nested group over some of the variables are differentiated with respect to every variable (strict, three relaxed modes, second order, mixed pairs) as flat, uncompiled, deep and converted expressions over f64, f32 and the value type.")
extend("C08", "calls below 126..513 (thorough ..1030) enclosing parentheses / unary functions", "Deep families put calls whose operator binds tighter than the operator following a grouped argument below 126..513 enclosing levels.")
extend("C09", "partial_iter driven by iterators without exact size hint", "In every state partial_iter is also driven by filter, from_fn, take_while and flat_map iterators (valid and out-of-range sequences).")
extend("C11", "uncompiled flat form of base and replacements", "Bases that contain a literal are also explored as parse_wo_compile expressions with uncompiled replacements.")
extend("C18", "piecewise expressions below two stacked unary operators", "A slice of the relaxed-mode family sits below two stacked unary operators (a deep level that consists of one nested level).")
extend("C20", "index-aligned 18-operator levels read by two factories; violations carry the failing schedule", "Two texts with 18 binary operators on one level have the same operator-index sequence under the two factories (other names, other priorities); every violation of a schedule body records the choice prefix under which it was first seen, and verif replay re-runs it.")
extend("C07", "large-count family (surplus of parentheses / operands / operators around 127, 255, 511 and multiples of 256)", "Malformed texts whose parenthesis, operand or operator surplus is a multiple of 256 away from a well-formed count, and damage behind the 255th token, for three languages.")
extend("C14", "structured orders also at 254..258 (thorough 2..260, 510..514) operands", "The structured application orders run at the chain lengths around 256 (thorough: 512) as well, with as many distinct priorities as operators.")
extend("C15", "257 (thorough 255..258, 300) distinct variables", "Many-variable texts pass the byte boundary of the variable index.")
extend("C09", "out-of-range aliases modulo 256 and 2^16", "The out-of-range index catalogue contains 255..257, 65535, 65536 and the aliases 256 + i, 65536 + i of the valid indices.")
extend("C04", "families with 63..66 and 255..258 distinct variables", "Arity and binding are also checked on texts with 63..66 and 255..258 distinct variables (all slice lengths 0..n+2).")
extend("C12", "five large texts (300 operands, 257 calls, 130 nesting levels)", "A third model parses, prints, converts and serialises five large texts.")
extend("C13", "table with 261 operators", "Family n reads binary, unary and constant names that sit behind 257 other operators in the table.")
extend("C10", "all 23 named helper methods, the constant constructors and the overloaded operators on DeepEx<f64>", "Every named helper of DeepEx<f64> is compared with operate_unary of that name and with the Rust primitive on the operand's value; pi / e / tau / one / zero / from_num; + - * / pow on all ordered pairs of eight deep expressions.")
extend("C05", "three variables on up to three nesting levels", "A campaign over the leaves x, y, z with unary operators (sizes (3,1), (3,2); thorough (4,1)) reaches nested levels that mention only some of the variables.")
extend("C09", "variable names whose byte order differs from the alphabetical order", "Four base expressions use upper/lower-case, digit, underscore, padded and Greek names.")
extend("C10", "listed long accumulating histories (12, thorough 24 applications), every prefix judged", "Next to the exhaustive short histories, 324 listed histories alternate two binary operators (all ordered pairs) with the other operand on the right / left / alternating and a unary operator at every fourth step, in the flat, deep and uncompiled forms.")
extend("C11", "listed substitution histories on expressions with 16..33 (thorough 15..65) variables", "Base expressions whose variables recur in nested groups; identity, one distinguished variable := every pool entry, all-to-one, each followed by a second substitution.")
extend("C12", "braced names with leading / trailing blanks", "The base texts contain `{ y}` and `{x }`.")
extend("C13", "names ending in a digit continued by Greek letters, underscore, digits", "Family o (unary p2, constant c0).")
extend("C18", "branches with 16..40 (thorough ..70) summands", "Piecewise texts whose longer branch has more operands than one machine word counts, in all five forms.")
extend("C20", "eval_str over f32 and f64 in one process; sequential histories split into all 25 jobs and the 14 cheapest one step longer", "Jobs evaluate texts whose value depends on the float width through eval_str::<f32> and eval_str::<f64> and compare bit-exactly with native arithmetic.")
