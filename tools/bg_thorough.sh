#!/bin/sh
# background exploration from a vp-run snapshot: own target dir and output dir, half the cores
# usage: tools/bg_thorough.sh <tier> <ID>...
TIER="$1"; shift
SNAP="$(pwd)"
export CARGO_NET_OFFLINE=true CARGO_TARGET_DIR=/root/.vp/bgtarget VERIF_OUT="$SNAP/out" VERIF_THREADS="${VERIF_THREADS:-13}"
mkdir -p "$VERIF_OUT"
(cd harness && cargo build --offline 2>&1 | tail -1)
for id in "$@"; do
  echo "=== $id $TIER"
  /root/.vp/bgtarget/debug/verif check "$id" --tier "$TIER" > "$VERIF_OUT/$id.log" 2>&1
  rc=$?
  grep -v "^VIOLATION" "$VERIF_OUT/$id.log" | cut -c1-400 | tail -60
  echo "exit=$rc violation_lines=$(grep -c '^VIOLATION' "$VERIF_OUT/$id.log")"
done
