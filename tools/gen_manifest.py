#!/usr/bin/env python3
"""Regenerates /verif/MANIFEST.json from the table below (keeps the manifest valid and current)."""
import json, subprocess, sys

# id -> (engine, technique, level text, level note, design ref)
CHECKS = {}
NOT_YET = {}

def add(pid, engine, technique, text, note, ref):
    CHECKS[pid] = (engine, technique, text, note, ref)

exec(open('/verif/tools/manifest_table.py').read())

props = [json.loads(l)["id"] for l in open('/verif/properties.jsonl')]
hooks_commits = []
try:
    out = subprocess.run(["git", "-C", "/repo", "log", "--format=%h %s"], capture_output=True, text=True).stdout
    hooks_commits = [l.split()[0] for l in out.splitlines() if l.split(" ", 1)[1].startswith("verif-hook:")]
except Exception:
    pass

manifest = {
    "version": 1,
    "setup_cmd": "cd /verif/harness && CARGO_NET_OFFLINE=true cargo build --offline",
    "hooks": {
        "guard": "exmex_verif",
        "enable": "no source hooks are used: everything is observed through the public API and through call-backs into harness-defined data types / operator factories / literal matchers; the harness depends on /repo as a cargo path dependency with features partial,value,serde and rebuilds from its working tree on every check",
        "baseline_off_cmd": "cd /repo && cargo test --workspace --no-fail-fast --offline",
        "source_commits": hooks_commits,
        "add_only": True,
    },
    "engines": [
        {"name": "E1", "path": "harness/src/enumr.rs", "serves_properties": ["C01", "C02", "C03", "C04", "C05", "C07", "C08", "C13", "C14", "C15", "C16", "C18", "C19"], "kind_free_text": "bounded-exhaustive enumeration of expression trees x renderings x operator tables / token strings, executed on the real library with a symbolic (free term algebra) data type and compared with a reference model"},
        {"name": "E2", "path": "harness/src/hist.rs", "serves_properties": ["C03", "C04", "C06", "C09", "C10", "C11", "C12", "C20"], "kind_free_text": "explicit-state exploration of operation histories on real objects (state = history, dedup key = full structural dump), reference model in lock-step"},
        {"name": "E3", "path": "harness/src/sched.rs", "serves_properties": ["C20"], "kind_free_text": "preemption-bounded depth-first enumeration of thread schedules of real exmex code on shuttle coroutines, scheduling points at every call-back"},
        {"name": "E4", "path": "harness/src/sweep.rs", "serves_properties": ["C06", "C17"], "kind_free_text": "crash-contained exhaustive sweeps in journaled worker subprocesses"},
    ],
    "checks": [],
    "not_applicable": [],
    "notes": "All checks: exit 0 = property held on everything explored; exit 1 + VIOLATION line = unlisted violation; exit 2 + MACHINERY-FAILURE = harness problem (never a verdict). Known findings live in /verif/known_findings.jsonl.",
}
for pid in props:
    if pid in CHECKS:
        engine, technique, text, note, ref = CHECKS[pid]
        manifest["checks"].append({
            "property_id": pid,
            "quick_cmd": f"/verif/run {pid} quick",
            "thorough_cmd": f"/verif/run {pid} thorough",
            "evidence_file": f"/verif/evidence/{pid}.json",
            "replay_cmd_template": "/verif/target/debug/verif replay {path}",
            "engine": engine,
            "level_claimed": {"category": "model_checking", "text": text, "design_ref": ref},
            "level_note": note,
            "technique": technique,
        })
    else:
        manifest["not_applicable"].append({"property_id": pid, "reason": NOT_YET.get(pid, "check not built yet in this round (work in progress, see DESIGN.md section 3); not claimed until its machinery exists")})

json.dump(manifest, open('/verif/MANIFEST.json', 'w'), indent=1)
print("checks:", [c["property_id"] for c in manifest["checks"]])
print("not_applicable:", [c["property_id"] for c in manifest["not_applicable"]])
