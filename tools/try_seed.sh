#!/bin/sh
# usage: tools/try_seed.sh <patch.diff> <tier> <ID>...
# Applies a seeded change to /repo, runs the repository's baseline suite and the given checks,
# prints one line per check, and reverts /repo.  Never commits anything.
PATCH="$1"; TIER="$2"; shift 2
if [ -n "$(git -C /repo status --porcelain --untracked-files=no)" ]; then echo "REFUSING: /repo has uncommitted changes"; exit 2; fi
git -C /repo apply "$PATCH" || { echo "PATCH DOES NOT APPLY"; exit 2; }
trap 'git -C /repo checkout -- . ' EXIT
if [ -z "$SKIP_BASELINE" ]; then
  B=$(cd /repo && cargo test --workspace --no-fail-fast --offline 2>&1 | grep -E "^test result" | awk '{p+=$4; f+=$6} END {print "passed="p" failed="f}')
  echo "baseline: $B"
fi
for id in "$@"; do
  OUT=$(VERIF_OUT=/tmp/seedout /verif/run "$id" "$TIER" 2>&1)
  rc=$?
  nv=$(echo "$OUT" | grep -c "^VIOLATION")
  first=$(echo "$OUT" | grep -E "^  \[$id\]" | head -2 | cut -c1-260)
  echo "$id $TIER exit=$rc violation_lines=$nv"
  [ -n "$first" ] && echo "$first"
  echo "$OUT" | grep -E "MACHINERY" | head -2
done
