#!/bin/bash
# usage: tools/verify_seed.sh <worktree>   - confirm a seeded defect in its scratch worktree:
# baseline green with the change, demonstration fails with it and passes without it
WT="$1"; cd "$WT" || exit 2
if [ -f tests/seeded_demo.rs ]; then DEMO="cargo test --offline --all-features --test seeded_demo"; else DEMO="cargo run --offline --all-features --example seeded_demo"; fi
git diff --quiet -- src && { echo "no src change applied"; exit 2; }
B=$(cargo test --workspace --no-fail-fast --offline 2>&1 | grep -E "^test result" | awk '{p+=$4; f+=$6} END {print "passed="p" failed="f}')
echo "baseline with change (incl. doctests, demo if under tests/): $B"
cargo build --offline --all-features >/dev/null 2>&1 && echo "all-features build: ok" || echo "all-features build: FAILED"
$DEMO >/tmp/demo_with.log 2>&1; echo "demo with change: exit=$?"
# (git stash is shared between worktrees of one repository - do not use it here)
git diff -- src > /tmp/verify_seed_$$.diff
git apply -R /tmp/verify_seed_$$.diff
$DEMO >/tmp/demo_without.log 2>&1; echo "demo without change: exit=$?"
git apply /tmp/verify_seed_$$.diff; rm -f /tmp/verify_seed_$$.diff
git diff --quiet -- src && echo "WARNING: change lost"
cmp -s patch.diff <(git diff -- src) 2>/dev/null || git diff -- src | diff -q - patch.diff >/dev/null || echo "NOTE: patch.diff differs from the applied change" 
