#!/bin/sh
# runs every registered quick command in turn; prints exit code and wall time per property
cd /verif
for i in 01 02 03 04 05 06 07 08 09 10 11 12 13 14 15 16 17 18 19 20; do
  id=C$i; s=$(date +%s); out=$(./run $id quick 2>&1); rc=$?; e=$(date +%s)
  echo "$id rc=$rc $((e-s))s $(echo "$out" | grep -E "^$id quick" | sed 's/.*unlisted/unlisted/')"
  echo "$out" | grep -E "^VIOLATION|MACHINERY" | head -3
done
