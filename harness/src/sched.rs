//! E3 - preemption-bounded depth-first enumeration of thread schedules (a shuttle `Scheduler`).
//! Canonical choice order at every scheduling point: the running task first (if still runnable),
//! then ascending task ids; switching away from a runnable running task costs one preemption.
//! An execution replays a prefix of choice indices and then always takes choice 0; a divergence
//! while replaying the prefix is a hard error.
use shuttle::scheduler::{Schedule, Scheduler, Task, TaskId};
use std::sync::{Arc, Mutex};

#[derive(Clone, Debug)]
struct Point {
    n_enabled: usize,
    running_enabled: bool,
    choice: usize,
}

#[derive(Default, Debug)]
pub struct PbStats {
    pub executions: u64,
    pub with_preemption: u64,
    pub max_points: usize,
    pub max_preemptions_seen: usize,
    /// choice sequences of all executions (only kept when requested)
    pub schedules: Vec<Vec<usize>>,
    /// a prefix could not be replayed (the execution took a different course than the one it
    /// was derived from); exploration of this body stopped there
    pub diverged: Option<String>,
}

/// choices taken so far in the execution that is running now (read by the body when it records a
/// deviation, so that the violation carries a replayable schedule)
static CURRENT: Mutex<Vec<usize>> = Mutex::new(Vec::new());
pub fn current_choices() -> Vec<usize> {
    CURRENT.lock().unwrap().clone()
}

pub struct PbDfs {
    bound: usize,
    stack: Vec<Vec<usize>>,
    prefix: Vec<usize>,
    record: Vec<Point>,
    started: bool,
    pub stats: Arc<Mutex<PbStats>>,
    keep_schedules: bool,
    /// run exactly this one schedule (replay mode)
    single: Option<Vec<usize>>,
    done_single: bool,
}

impl PbDfs {
    pub fn new(bound: usize, keep_schedules: bool) -> (Self, Arc<Mutex<PbStats>>) {
        let stats = Arc::new(Mutex::new(PbStats::default()));
        (PbDfs { bound, stack: vec![], prefix: vec![], record: vec![], started: false, stats: stats.clone(), keep_schedules, single: None, done_single: false }, stats)
    }
    pub fn replay(choices: Vec<usize>) -> (Self, Arc<Mutex<PbStats>>) {
        let (mut s, st) = PbDfs::new(usize::MAX, true);
        s.single = Some(choices);
        (s, st)
    }
    fn finish_execution(&mut self) {
        let rec = std::mem::take(&mut self.record);
        let choices: Vec<usize> = rec.iter().map(|p| p.choice).collect();
        // preemptions before point i
        let mut pre = Vec::with_capacity(rec.len() + 1);
        let mut c = 0usize;
        for p in &rec {
            pre.push(c);
            if p.running_enabled && p.choice != 0 {
                c += 1;
            }
        }
        {
            let mut st = self.stats.lock().unwrap();
            st.executions += 1;
            if c > 0 {
                st.with_preemption += 1;
            }
            st.max_points = st.max_points.max(rec.len());
            st.max_preemptions_seen = st.max_preemptions_seen.max(c);
            if self.keep_schedules {
                st.schedules.push(choices.clone());
            }
        }
        if self.single.is_some() || self.stats.lock().unwrap().diverged.is_some() {
            return;
        }
        // children: deviate at every point after the replayed prefix
        for i in (self.prefix.len()..rec.len()).rev() {
            let p = &rec[i];
            for alt in (1..p.n_enabled).rev() {
                let cost = pre[i] + if p.running_enabled { 1 } else { 0 };
                if cost > self.bound {
                    continue;
                }
                let mut child = choices[..i].to_vec();
                child.push(alt);
                self.stack.push(child);
            }
        }
    }
}

impl Scheduler for PbDfs {
    fn new_execution(&mut self) -> Option<Schedule> {
        CURRENT.lock().unwrap().clear();
        if let Some(s) = self.single.clone() {
            if self.started {
                self.finish_execution();
            }
            if self.done_single {
                return None;
            }
            self.done_single = true;
            self.started = true;
            self.prefix = s;
            return Some(Schedule::new(0));
        }
        if self.started {
            self.finish_execution();
            match self.stack.pop() {
                Some(p) => self.prefix = p,
                None => return None,
            }
        } else {
            self.started = true;
            self.prefix = vec![];
        }
        Some(Schedule::new(0))
    }

    fn next_task(&mut self, runnable: &[&Task], current: Option<TaskId>, _is_yielding: bool) -> Option<TaskId> {
        let mut ids: Vec<TaskId> = runnable.iter().map(|t| t.id()).collect();
        ids.sort();
        let running_enabled = current.map(|c| ids.contains(&c)).unwrap_or(false);
        if running_enabled {
            let c = current.unwrap();
            ids.retain(|t| *t != c);
            ids.insert(0, c);
        }
        let k = self.record.len();
        let choice = if k < self.prefix.len() {
            let c = self.prefix[k];
            if c >= ids.len() {
                // the caller decides: a deviation from the reference observed in this body makes
                // it a verdict about the library (hidden state), otherwise a machinery failure
                let mut st = self.stats.lock().unwrap();
                if st.diverged.is_none() {
                    st.diverged = Some(format!("schedule replay diverged at point {k}: choice {c} of {} enabled tasks", ids.len()));
                }
                drop(st);
                self.stack.clear();
                self.prefix.truncate(k);
                0
            } else {
                c
            }
        } else {
            0
        };
        self.record.push(Point { n_enabled: ids.len(), running_enabled, choice });
        CURRENT.lock().unwrap().push(choice);
        Some(ids[choice])
    }

    fn next_u64(&mut self) -> u64 {
        0
    }
}

pub fn config() -> shuttle::Config {
    let mut c = shuttle::Config::new();
    // exmex keeps large SmallVecs on the stack
    c.stack_size = 16 << 20;
    c.failure_persistence = shuttle::FailurePersistence::None;
    c
}

/// run `body` under every schedule with at most `bound` preemptions
pub fn explore<F>(bound: usize, keep: bool, body: F) -> PbStats
where
    F: Fn() + Send + Sync + 'static,
{
    let (s, stats) = PbDfs::new(bound, keep);
    let runner = shuttle::Runner::new(s, config());
    runner.run(body);
    let mut g = stats.lock().unwrap();
    std::mem::take(&mut *g)
}

pub fn replay_one<F>(choices: Vec<usize>, body: F) -> PbStats
where
    F: Fn() + Send + Sync + 'static,
{
    let (s, stats) = PbDfs::replay(choices);
    let runner = shuttle::Runner::new(s, config());
    runner.run(body);
    let mut g = stats.lock().unwrap();
    std::mem::take(&mut *g)
}
