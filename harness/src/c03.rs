//! C03 - flat and deep expression forms are interchangeable.
use crate::common::*;
use crate::enumr::*;
use crate::report::*;
use crate::spec::Tree;
use crate::strsweep::*;
use crate::sym::*;
use crate::treecheck::*;
use exmex::prelude::*;
use exmex::Express;
use serde_json::json;
use std::collections::BTreeSet;

fn al(bins: &[u16], uns: &[u16], leaves: Vec<Tree>) -> Alphabet {
    Alphabet { leaves, uns: uns.to_vec(), bins: bins.to_vec() }
}

pub const PIPES: [Pipe; 6] = [Pipe::P, Pipe::D, Pipe::PD, Pipe::WD, Pipe::DF, Pipe::PDF];

fn campaigns(tier: Tier) -> Vec<Campaign> {
    let t0 = universal_table(PRIO_MAPS[0]);
    let mk = |name: &str, table: &std::sync::Arc<Table>, a: Alphabet, sizes: Vec<(usize, usize)>, dev: usize| Campaign {
        name: name.into(),
        table: table.clone(),
        alphabet: a,
        sizes,
        max_dev: dev,
        max_extra: 2,
        blanks: vec![0],
        pipes: PIPES.to_vec(),
        filter: None,
        choice_gen: None,
    };
    let small_leaves = || vec![Tree::lit(1), Tree::lit(2), Tree::var("x")];
    let mut v = vec![];
    v.push(mk("tiny-all-renderings", &t0, al(&UT_BINS_ALL, &UT_UNS_ALL, leaves_with_const()), vec![(1, 0), (1, 1), (1, 2), (2, 0), (2, 1)], 99));
    if tier.thorough() {
        v.push(mk("n3-all-dev1", &t0, al(&UT_BINS_ALL, &UT_UNS_SMALL, leaves_std()), vec![(2, 2), (3, 0), (3, 1)], 1));
        v.push(mk("n3u2-dev0", &t0, al(&UT_BINS_ALL, &[5, 12, 14], small_leaves()), vec![(3, 2)], 0));
        v.push(mk("n4-all-dev0", &t0, al(&UT_BINS_ALL, &[], leaves_std()), vec![(4, 0)], 0));
        v.push(mk("n4u1-small-dev0", &t0, al(&UT_BINS_SMALL, &UT_UNS_SMALL, small_leaves()), vec![(4, 1)], 0));
        v.push(mk("n5-small-dev0", &t0, al(&UT_BINS_SMALL, &[], small_leaves()), vec![(5, 0)], 0));
        for (i, pm) in PRIO_MAPS.iter().enumerate().skip(1) {
            let t = universal_table(*pm);
            v.push(mk(&format!("priomap{i}-n4"), &t, al(&UT_BINS_SMALL, &UT_UNS_SMALL, small_leaves()), vec![(3, 1), (4, 0)], 0));
        }
    } else {
        v.push(mk("n3-all-dev0", &t0, al(&UT_BINS_ALL, &UT_UNS_SMALL, leaves_std()), vec![(3, 0), (3, 1)], 0));
        v.push(mk("n3u2-small-dev0", &t0, al(&UT_BINS_SMALL, &UT_UNS_SMALL, small_leaves()), vec![(3, 2)], 0));
        v.push(mk("n4-small-dev0", &t0, al(&UT_BINS_SMALL, &[], small_leaves()), vec![(4, 0)], 0));
        let t2 = universal_table(PRIO_MAPS[2]);
        v.push(mk("priomap2-n3", &t2, al(&UT_BINS_SMALL, &UT_UNS_SMALL, small_leaves()), vec![(3, 0), (3, 1)], 0));
    }
    v
}

pub fn must_may(tree: &Tree, t: &Table, must_b: &mut BTreeSet<String>, must_u: &mut BTreeSet<String>, may_b: &mut BTreeSet<String>, may_u: &mut BTreeSet<String>) {
    match tree {
        Tree::Un(k, a) => {
            let n = t.ops[*k as usize].name.to_string();
            may_u.insert(n.clone());
            if a.has_var() {
                must_u.insert(n);
            }
            must_may(a, t, must_b, must_u, may_b, may_u);
        }
        Tree::Bin(k, a, b) => {
            let n = t.ops[*k as usize].name.to_string();
            may_b.insert(n.clone());
            if a.has_var() || b.has_var() {
                must_b.insert(n);
            }
            must_may(a, t, must_b, must_u, may_b, may_u);
            must_may(b, t, must_b, must_u, may_b, may_u);
        }
        _ => {}
    }
}
fn has_constant_subexpr_with_op(tree: &Tree) -> bool {
    match tree {
        Tree::Un(_, a) => !tree.has_var() || has_constant_subexpr_with_op(a),
        Tree::Bin(_, a, b) => !tree.has_var() || has_constant_subexpr_with_op(a) || has_constant_subexpr_with_op(b),
        _ => false,
    }
}

pub fn listing_ok(name: &str, l: &[String], must: &BTreeSet<String>, may: &BTreeSet<String>) -> Result<(), String> {
    for w in l.windows(2) {
        if w[0] >= w[1] {
            return Err(format!("{name} not sorted/duplicate-free: {l:?}"));
        }
    }
    for m in must {
        if !l.contains(m) {
            return Err(format!("{name} {l:?} lacks {m:?}, which is applied to a variable-dependent operand"));
        }
    }
    for x in l {
        if !may.contains(x) {
            return Err(format!("{name} {l:?} contains {x:?}, which does not occur in the text"));
        }
    }
    Ok(())
}

/// operator listings + closure of the conversion graph, on the default rendering of every tree
fn listings_and_closure(tree: &Tree, text: &str, is_default: bool, t: &Table, acc: &mut Acc) {
    if !is_default {
        return;
    }
    let vars = tree.vars();
    let expect = nf_ac(&tree.eval_sym(&vars, t), t);
    let r = guard(|| -> Result<(), String> {
        let (Ok(f), Ok(w), Ok(d)) = (SFlat::parse(text), SFlat::parse_wo_compile(text), SDeep::parse(text)) else {
            return Ok(()); // rejected texts are reported by the pipeline comparison
        };
        let (mut mb, mut mu, mut yb, mut yu) = Default::default();
        must_may(tree, t, &mut mb, &mut mu, &mut yb, &mut yu);
        let mall: BTreeSet<String> = mb.union(&mu).cloned().collect();
        let yall: BTreeSet<String> = yb.union(&yu).cloned().collect();
        macro_rules! listing {
            ($e:expr, $n:expr) => {{
                acc.transitions += 3;
                listing_ok(&format!("{} binary_reprs", $n), &$e.binary_reprs(), &mb, &yb)?;
                listing_ok(&format!("{} unary_reprs", $n), &$e.unary_reprs(), &mu, &yu)?;
                listing_ok(&format!("{} operator_reprs", $n), &$e.operator_reprs(), &mall, &yall)?;
            }};
        }
        listing!(f, "flat");
        listing!(w, "flat-uncompiled");
        listing!(d, "deep");
        acc.count("listing_checks", 3);
        if !has_constant_subexpr_with_op(tree) {
            acc.count("trees_without_constant_subexpression_(listings_must_coincide)", 1);
            if f.binary_reprs() != d.binary_reprs() || f.unary_reprs() != d.unary_reprs() || f.operator_reprs() != d.operator_reprs() {
                return Err(format!(
                    "flat and deep listings differ although no variable-free sub-expression contains an operator: flat {:?}/{:?} deep {:?}/{:?}",
                    f.binary_reprs(),
                    f.unary_reprs(),
                    d.binary_reprs(),
                    d.unary_reprs()
                ));
            }
        }
        // closure of to_deepex/from_deepex from the flat and from the deep start state
        let check = |names: &[String], v: &Sym, what: &str| -> Result<(), String> {
            if names != vars.as_slice() {
                return Err(format!("{what}: variables {names:?} instead of {vars:?}"));
            }
            if nf_ac(v, t) != expect {
                return Err(format!("{what}: value {} differs from reference", show(v, t)));
            }
            Ok(())
        };
        let mut cur_f = f.clone();
        let mut steps = 0;
        let mut fix = false;
        for _ in 0..6 {
            let dd = cur_f.clone().to_deepex().map_err(|e| format!("to_deepex failed: {}", e.msg()))?;
            acc.transitions += 2;
            let vals = var_syms(dd.var_names().len());
            let v = dd.eval(&vals).map_err(|e| format!("deep eval failed: {}", e.msg()))?;
            check(dd.var_names(), &v, &format!("after {} conversions (deep)", 2 * steps + 1))?;
            let nf = SFlat::from_deepex(dd).map_err(|e| format!("from_deepex failed: {}", e.msg()))?;
            let vals = var_syms(nf.var_names().len());
            let v = nf.eval(&vals).map_err(|e| format!("flat eval failed: {}", e.msg()))?;
            check(nf.var_names(), &v, &format!("after {} conversions (flat)", 2 * steps + 2))?;
            steps += 1;
            if nf == cur_f {
                fix = true;
                break;
            }
            cur_f = nf;
        }
        if fix {
            acc.count(&format!("conversion_graph_closed_after_{steps}_round_trips"), 1);
        } else {
            acc.count("conversion_graph_not_closed_within_6_round_trips(cap)", 1);
        }
        // start from the deep form
        let f2 = SFlat::from_deepex(d.clone()).map_err(|e| format!("from_deepex failed: {}", e.msg()))?;
        let d2 = f2.to_deepex().map_err(|e| format!("to_deepex failed: {}", e.msg()))?;
        let vals = var_syms(d2.var_names().len());
        let v = d2.eval(&vals).map_err(|e| format!("deep eval failed: {}", e.msg()))?;
        check(d2.var_names(), &v, "deep -> flat -> deep")?;
        acc.transitions += 2;
        Ok(())
    });
    let bad = match r {
        Ok(Ok(())) => None,
        Ok(Err(m)) => Some(m),
        Err(p) => Some(format!("PANIC {p}")),
    };
    if let Some(m) = bad {
        let kind: String = m.split(':').next().unwrap_or("").chars().take(60).collect();
        acc.violate(Violation {
            signature: format!("listing-or-closure:{kind}:{}", canon_tree(tree, t)),
            what: format!("on {text:?}: {m}"),
            case: json!({"engine": "c03-extra", "table": t.describe(), "text": text}),
        });
    }
}

pub fn replay_extra(case: &serde_json::Value) -> i32 {
    install_panic_hook();
    let table = Table::from_json(&case["table"]);
    set_table(&table);
    let text = case["text"].as_str().unwrap_or("");
    match crate::spec::read(text, &table, crate::spec::LitKind::Sym) {
        crate::spec::SpecResult::Ok(tree) => {
            let mut acc = Acc::default();
            listings_and_closure(&tree, text, true, &table, &mut acc);
            for v in &acc.violations {
                println!("  {}", v.what);
            }
            if acc.violations.is_empty() {
                println!("  => holds");
                0
            } else {
                println!("  => MISMATCH");
                1
            }
        }
        o => {
            println!("reference does not read {text:?}: {o:?}");
            2
        }
    }
}

/// flat vs deep on every token string both accept
fn string_differential(rep: &mut Report, max_len: usize, tokens: Vec<&'static str>, name: &str) {
    let table = universal_table(PRIO_MAPS[0]);
    let sw = Sweep { name, tokens, max_len, table: table.clone(), sep: " " };
    sweep_strings(&sw, rep, &|text, _idx, acc| {
        let p = run_pipe(Pipe::P, text);
        let d = run_pipe(Pipe::D, text);
        acc.transitions += 2;
        let agree = match (&p, &d) {
            (Out::Val(n1, v1), Out::Val(n2, v2)) => {
                acc.states += 1;
                if v1.size() > 1 {
                    acc.nontrivial += 1;
                }
                acc.count("strings_accepted_by_flat_and_deep", 1);
                n1 == n2 && nf_ac(v1, &table) == nf_ac(v2, &table) && !v1.contains_dflt() && !v2.contains_dflt()
            }
            (Out::Panic(_), _) | (_, Out::Panic(_)) => false,
            (Out::Val(..), Out::Err(_)) => {
                acc.count("strings_only_flat_accepts(not_judged)", 1);
                true
            }
            (Out::Err(_), Out::Val(..)) => {
                acc.count("strings_only_deep_accepts(not_judged)", 1);
                true
            }
            _ => true,
        };
        if !agree {
            acc.violate(Violation {
                signature: format!("P-vs-D:{}", crate::c02::sig_text(text, &p, &d)),
                what: format!("flat vs deep differ on {text:?}: {} vs {}", p.short(&table), d.short(&table)),
                case: json!({"engine": "diff-text", "table": table.describe(), "text": text, "pipes": ["P", "D"]}),
            });
        }
        if acc.evaluations % 50021 == 1 {
            acc.sample(json!({"string": text, "flat": p.short(&table), "deep": d.short(&table)}));
        }
    });
}

pub fn run(tier: Tier) -> i32 {
    let mut rep = Report::new("C03", tier);
    rep.rule = "all trees of the listed sizes through FlatEx::parse, DeepEx::parse, to_deepex (from compiled and uncompiled flat), from_deepex and their compositions; closure of the conversion graph per tree; operator listings of all forms against bounds derived from the reference tree; all token strings up to the length bound for flat vs deep; distinct = distinct trees / jointly accepted strings; non-trivial = contains an operator".into();
    rep.assumptions = vec!["as C01".into(), "only strings accepted by both parsers are compared (acceptance differences on ill-formed strings are counted, not judged)".into()];
    for c in campaigns(tier) {
        let raw = run_campaign(&c, &mut rep, "C03", Some(&listings_and_closure));
        shrink_and_report(raw, &c.table, &mut rep, &c.name);
    }
    crate::c01::run_large_families(&mut rep, &[Pipe::D, Pipe::PD, Pipe::DF, Pipe::PDF, Pipe::DFDF]);
    let l = if tier.thorough() { 6 } else { 5 };
    string_differential(&mut rep, l, std_tokens(), "strings-std");
    string_differential(&mut rep, if tier.thorough() { 6 } else { 5 }, macro_tokens(), "strings-macro");
    if tier.thorough() {
        string_differential(&mut rep, 7, small_tokens(), "strings-small");
    }
    crate::derived::run_derived(&mut rep, "C03", crate::derived::Focus::Convert, tier.thorough());
    rep.finish()
}
