//! The free term algebra as an exmex data type, plus runtime-configurable operator tables.
//!
//! exmex can touch values only through Clone / Default / FromStr / Debug and the operator
//! function pointers, so evaluating with `Sym` yields the applied tree itself.
use exmex::{BinOp, MakeOperators, MatchLiteral, Operator};
use std::cell::{Cell, RefCell};
use std::fmt;
use std::str::FromStr;
use std::sync::Arc;

use crate::slots::{BIN_SLOTS, N_SLOTS, UN_SLOTS};

#[derive(PartialEq, Eq, Hash, PartialOrd, Ord)]
pub enum Sym {
    /// the moved-out placeholder of `mem::take`; must never occur inside a result
    Dflt,
    Lit(u32),
    Var(u32),
    Un(u16, Arc<Sym>),
    Bin(u16, Arc<Sym>, Arc<Sym>),
}

pub const N_TABLES: usize = 3;

thread_local! {
    static YIELD: Cell<bool> = const { Cell::new(false) };
    static CALLBACKS: Cell<u64> = const { Cell::new(0) };
    static APPLIES: Cell<u64> = const { Cell::new(0) };
    static MAKES: Cell<u64> = const { Cell::new(0) };
    static VAR_CLONES: RefCell<Vec<u32>> = const { RefCell::new(Vec::new()) };
    static TABLES: RefCell<[Arc<Table>; N_TABLES]> = RefCell::new(std::array::from_fn(|_| Arc::new(Table { ops: vec![], call_all: false })));
}

/// every call the library makes into harness code passes here: a scheduling point under E3
#[inline]
pub fn cb() {
    CALLBACKS.with(|c| c.set(c.get() + 1));
    if YIELD.with(|y| y.get()) {
        shuttle::thread::yield_now();
    }
}
pub fn set_yield(on: bool) {
    YIELD.with(|y| y.set(on));
}
pub fn callbacks() -> u64 {
    CALLBACKS.with(|c| c.get())
}
pub fn applies() -> u64 {
    APPLIES.with(|c| c.get())
}
pub fn makes() -> u64 {
    MAKES.with(|c| c.get())
}
pub fn reset_var_clones() {
    VAR_CLONES.with(|v| v.borrow_mut().clear());
}
pub fn var_clones(i: u32) -> u32 {
    VAR_CLONES.with(|v| v.borrow().get(i as usize).copied().unwrap_or(0))
}

impl Clone for Sym {
    fn clone(&self) -> Self {
        cb();
        match self {
            Sym::Dflt => Sym::Dflt,
            Sym::Lit(n) => Sym::Lit(*n),
            Sym::Var(i) => {
                VAR_CLONES.with(|v| {
                    let mut v = v.borrow_mut();
                    if v.len() <= *i as usize {
                        v.resize(*i as usize + 1, 0);
                    }
                    v[*i as usize] += 1;
                });
                Sym::Var(*i)
            }
            Sym::Un(k, a) => Sym::Un(*k, a.clone()),
            Sym::Bin(k, a, b) => Sym::Bin(*k, a.clone(), b.clone()),
        }
    }
}
impl Default for Sym {
    fn default() -> Self {
        cb();
        Sym::Dflt
    }
}
impl fmt::Debug for Sym {
    fn fmt(&self, f: &mut fmt::Formatter<'_>) -> fmt::Result {
        cb();
        self.write(f)
    }
}
impl fmt::Display for Sym {
    fn fmt(&self, f: &mut fmt::Formatter<'_>) -> fmt::Result {
        self.write(f)
    }
}
impl Sym {
    fn write(&self, f: &mut fmt::Formatter<'_>) -> fmt::Result {
        match self {
            Sym::Dflt => write!(f, "#d"),
            Sym::Lit(n) => write!(f, "{n}"),
            Sym::Var(i) => write!(f, "#v{i}"),
            Sym::Un(k, a) => {
                write!(f, "#u{k}[")?;
                a.write(f)?;
                write!(f, "]")
            }
            Sym::Bin(k, a, b) => {
                write!(f, "#b{k}[")?;
                a.write(f)?;
                write!(f, ";")?;
                b.write(f)?;
                write!(f, "]")
            }
        }
    }
    pub fn contains_dflt(&self) -> bool {
        match self {
            Sym::Dflt => true,
            Sym::Lit(_) | Sym::Var(_) => false,
            Sym::Un(_, a) => a.contains_dflt(),
            Sym::Bin(_, a, b) => a.contains_dflt() || b.contains_dflt(),
        }
    }
    pub fn count_var(&self, i: u32) -> usize {
        match self {
            Sym::Var(j) => (*j == i) as usize,
            Sym::Dflt | Sym::Lit(_) => 0,
            Sym::Un(_, a) => a.count_var(i),
            Sym::Bin(_, a, b) => a.count_var(i) + b.count_var(i),
        }
    }
    pub fn size(&self) -> usize {
        match self {
            Sym::Dflt | Sym::Lit(_) | Sym::Var(_) => 1,
            Sym::Un(_, a) => 1 + a.size(),
            Sym::Bin(_, a, b) => 1 + a.size() + b.size(),
        }
    }
    pub fn un(k: u16, a: Sym) -> Sym {
        Sym::Un(k, Arc::new(a))
    }
    pub fn bin(k: u16, a: Sym, b: Sym) -> Sym {
        Sym::Bin(k, Arc::new(a), Arc::new(b))
    }
    /// replace Var(i) by vals[i]
    pub fn subst(&self, vals: &[Sym]) -> Sym {
        match self {
            Sym::Var(i) => vals[*i as usize].clone_quiet(),
            Sym::Dflt => Sym::Dflt,
            Sym::Lit(n) => Sym::Lit(*n),
            Sym::Un(k, a) => Sym::un(*k, a.subst(vals)),
            Sym::Bin(k, a, b) => Sym::bin(*k, a.subst(vals), b.subst(vals)),
        }
    }
    /// clone without touching counters or the scheduler (harness-internal use)
    pub fn clone_quiet(&self) -> Sym {
        match self {
            Sym::Dflt => Sym::Dflt,
            Sym::Lit(n) => Sym::Lit(*n),
            Sym::Var(i) => Sym::Var(*i),
            Sym::Un(k, a) => Sym::Un(*k, a.clone()),
            Sym::Bin(k, a, b) => Sym::Bin(*k, a.clone(), b.clone()),
        }
    }
}

/// parse a literal prefix: digits | #v<digits> | #d | #u<k>[lit] | #b<k>[lit;lit]
pub fn parse_lit_prefix(s: &str) -> Option<(Sym, usize)> {
    let b = s.as_bytes();
    fn digits(b: &[u8], mut p: usize) -> Option<(u64, usize)> {
        let st = p;
        let mut v: u64 = 0;
        while p < b.len() && b[p].is_ascii_digit() {
            v = v.checked_mul(10)?.checked_add((b[p] - b'0') as u64)?;
            p += 1;
        }
        if p == st {
            None
        } else {
            Some((v, p))
        }
    }
    fn go(b: &[u8], p: usize) -> Option<(Sym, usize)> {
        if p >= b.len() {
            return None;
        }
        if b[p].is_ascii_digit() {
            let (v, q) = digits(b, p)?;
            return Some((Sym::Lit(u32::try_from(v).ok()?), q));
        }
        if b[p] != b'#' || p + 1 >= b.len() {
            return None;
        }
        match b[p + 1] {
            b'd' => Some((Sym::Dflt, p + 2)),
            b'v' => {
                let (v, q) = digits(b, p + 2)?;
                Some((Sym::Var(u32::try_from(v).ok()?), q))
            }
            b'u' => {
                let (k, q) = digits(b, p + 2)?;
                if *b.get(q)? != b'[' {
                    return None;
                }
                let (a, q) = go(b, q + 1)?;
                if *b.get(q)? != b']' {
                    return None;
                }
                Some((Sym::un(u16::try_from(k).ok()?, a), q + 1))
            }
            b'b' => {
                let (k, q) = digits(b, p + 2)?;
                if *b.get(q)? != b'[' {
                    return None;
                }
                let (a, q) = go(b, q + 1)?;
                if *b.get(q)? != b';' {
                    return None;
                }
                let (c, q) = go(b, q + 1)?;
                if *b.get(q)? != b']' {
                    return None;
                }
                Some((Sym::bin(u16::try_from(k).ok()?, a, c), q + 1))
            }
            _ => None,
        }
    }
    go(b, 0)
}

impl FromStr for Sym {
    type Err = String;
    fn from_str(s: &str) -> Result<Self, Self::Err> {
        cb();
        match parse_lit_prefix(s) {
            Some((v, n)) if n == s.len() => Ok(v),
            _ => Err(format!("not a Sym literal: {s}")),
        }
    }
}

#[derive(Clone, Debug, PartialEq, Eq, PartialOrd, Ord)]
pub struct SymMatcher;
impl MatchLiteral for SymMatcher {
    fn is_literal(text: &str) -> Option<&str> {
        cb();
        parse_lit_prefix(text).map(|(_, n)| &text[..n])
    }
}

// ---------------------------------------------------------------------------------------------
// operator tables as runtime values

#[derive(Clone, Debug, PartialEq, Eq)]
pub struct OpDesc {
    pub name: &'static str,
    /// (priority, is_commutative)
    pub bin: Option<(i64, bool)>,
    pub unary: bool,
    /// value of a constant operator (a literal)
    pub constant: Option<u32>,
}
impl OpDesc {
    pub fn bin(name: &'static str, prio: i64, comm: bool) -> Self {
        OpDesc { name, bin: Some((prio, comm)), unary: false, constant: None }
    }
    pub fn un(name: &'static str) -> Self {
        OpDesc { name, bin: None, unary: true, constant: None }
    }
    pub fn bin_un(name: &'static str, prio: i64, comm: bool) -> Self {
        OpDesc { name, bin: Some((prio, comm)), unary: true, constant: None }
    }
    pub fn cst(name: &'static str, v: u32) -> Self {
        OpDesc { name, bin: None, unary: false, constant: Some(v) }
    }
    pub fn is_alpha(&self) -> bool {
        self.name.chars().next().map(crate::spec::is_ident_start).unwrap_or(false)
    }
}

#[derive(Clone, Debug, PartialEq, Eq)]
pub struct Table {
    pub ops: Vec<OpDesc>,
    /// renderer option: the call-form alternative is available for every binary operator
    /// (symbolic and sign-like ones too), not only for the alphabetic ones
    pub call_all: bool,
}
impl Table {
    pub fn new(ops: Vec<OpDesc>) -> Arc<Table> {
        assert!(ops.len() <= N_SLOTS);
        Arc::new(Table { ops, call_all: false })
    }
    pub fn new_call_all(ops: Vec<OpDesc>) -> Arc<Table> {
        assert!(ops.len() <= N_SLOTS);
        Arc::new(Table { ops, call_all: true })
    }
    pub fn is_comm(&self, k: u16) -> bool {
        self.ops[k as usize].bin.map(|b| b.1).unwrap_or(false)
    }
    pub fn prio(&self, k: u16) -> i64 {
        self.ops[k as usize].bin.unwrap().0
    }
    pub fn find(&self, name: &str) -> Option<u16> {
        self.ops.iter().position(|o| o.name == name).map(|i| i as u16)
    }
    pub fn describe(&self) -> serde_json::Value {
        serde_json::Value::Array(
            self.ops
                .iter()
                .map(|o| {
                    serde_json::json!({"name": o.name, "bin": o.bin.map(|b| serde_json::json!([b.0, b.1])), "unary": o.unary, "const": o.constant})
                })
                .collect(),
        )
    }
    pub fn from_json(v: &serde_json::Value) -> Arc<Table> {
        let ops = v
            .as_array()
            .unwrap()
            .iter()
            .map(|o| OpDesc {
                name: intern(o["name"].as_str().unwrap()),
                bin: o["bin"].as_array().map(|b| (b[0].as_i64().unwrap(), b[1].as_bool().unwrap())),
                unary: o["unary"].as_bool().unwrap(),
                constant: o["const"].as_u64().map(|c| c as u32),
            })
            .collect();
        Table::new(ops)
    }
}

pub fn intern(s: &str) -> &'static str {
    use std::collections::HashSet;
    use std::sync::Mutex;
    static POOL: Mutex<Option<HashSet<&'static str>>> = Mutex::new(None);
    let mut g = POOL.lock().unwrap();
    let set = g.get_or_insert_with(HashSet::new);
    if let Some(x) = set.get(s) {
        return x;
    }
    let l: &'static str = Box::leak(s.to_string().into_boxed_str());
    set.insert(l);
    l
}

pub fn set_table_n(n: usize, t: &Arc<Table>) {
    TABLES.with(|ts| ts.borrow_mut()[n] = t.clone());
}
pub fn set_table(t: &Arc<Table>) {
    set_table_n(0, t);
}
pub fn table_n(n: usize) -> Arc<Table> {
    TABLES.with(|ts| ts.borrow()[n].clone())
}

/// operator factory whose table is the thread-local slot `N`
#[derive(Clone, Debug, PartialEq, Eq, PartialOrd, Ord)]
pub struct CfgOps<const N: usize>;
impl<const N: usize> MakeOperators<Sym> for CfgOps<N> {
    fn make<'a>() -> Vec<Operator<'a, Sym>> {
        cb();
        MAKES.with(|c| c.set(c.get() + 1));
        let t = table_n(N);
        t.ops
            .iter()
            .enumerate()
            .map(|(k, o)| {
                if let Some(c) = o.constant {
                    Operator::make_constant(o.name, Sym::Lit(c))
                } else {
                    match (o.bin, o.unary) {
                        (Some((prio, is_commutative)), false) => {
                            Operator::make_bin(o.name, BinOp { apply: BIN_SLOTS[k], prio, is_commutative })
                        }
                        (Some((prio, is_commutative)), true) => Operator::make_bin_unary(
                            o.name,
                            BinOp { apply: BIN_SLOTS[k], prio, is_commutative },
                            UN_SLOTS[k],
                        ),
                        (None, true) => Operator::make_unary(o.name, UN_SLOTS[k]),
                        (None, false) => panic!("harness: empty operator description"),
                    }
                }
            })
            .collect()
    }
}
pub type Ops0 = CfgOps<0>;

pub fn bin_slot<const K: u16>(a: Sym, b: Sym) -> Sym {
    cb();
    APPLIES.with(|c| c.set(c.get() + 1));
    Sym::Bin(K, Arc::new(a), Arc::new(b))
}
pub fn un_slot<const K: u16>(a: Sym) -> Sym {
    cb();
    APPLIES.with(|c| c.set(c.get() + 1));
    Sym::Un(K, Arc::new(a))
}

pub type SFlat = exmex::FlatEx<Sym, Ops0, SymMatcher>;
pub type SDeep<'a> = exmex::DeepEx<'a, Sym, Ops0, SymMatcher>;

// ---------------------------------------------------------------------------------------------
// normal form modulo associativity/commutativity of flagged operators

#[derive(Clone, PartialEq, Eq, PartialOrd, Ord, Hash, Debug)]
pub enum Nf {
    Dflt,
    Lit(u32),
    Var(u32),
    Un(u16, Box<Nf>),
    Bin(u16, Box<Nf>, Box<Nf>),
    Ac(u16, Vec<Nf>),
}

pub fn nf_ac(s: &Sym, t: &Table) -> Nf {
    match s {
        Sym::Dflt => Nf::Dflt,
        Sym::Lit(n) => Nf::Lit(*n),
        Sym::Var(i) => Nf::Var(*i),
        Sym::Un(k, a) => Nf::Un(*k, Box::new(nf_ac(a, t))),
        Sym::Bin(k, a, b) => {
            if t.is_comm(*k) {
                let mut items = Vec::new();
                fn collect(s: &Sym, k: u16, t: &Table, out: &mut Vec<Nf>) {
                    match s {
                        Sym::Bin(k2, a, b) if *k2 == k => {
                            collect(a, k, t, out);
                            collect(b, k, t, out);
                        }
                        _ => out.push(nf_ac(s, t)),
                    }
                }
                collect(a, *k, t, &mut items);
                collect(b, *k, t, &mut items);
                items.sort();
                Nf::Ac(*k, items)
            } else {
                Nf::Bin(*k, Box::new(nf_ac(a, t)), Box::new(nf_ac(b, t)))
            }
        }
    }
}

/// pretty form with operator names, for reports
pub fn show(s: &Sym, t: &Table) -> String {
    match s {
        Sym::Dflt => "<DEFAULT>".into(),
        Sym::Lit(n) => format!("{n}"),
        Sym::Var(i) => format!("v{i}"),
        Sym::Un(k, a) => format!("{}[{}]", t.ops[*k as usize].name, show(a, t)),
        Sym::Bin(k, a, b) => format!("({} {} {})", show(a, t), t.ops[*k as usize].name, show(b, t)),
    }
}
