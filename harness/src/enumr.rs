//! Bounded-exhaustive enumerators (E1) and the parallel driver.
use crate::report::Acc;
use crate::spec::Tree;
use std::sync::atomic::{AtomicU64, Ordering};

pub fn n_threads() -> usize {
    std::env::var("VERIF_THREADS").ok().and_then(|s| s.parse().ok()).unwrap_or_else(|| {
        std::thread::available_parallelism().map(|n| n.get()).unwrap_or(8).min(16)
    })
}

/// run `f(start, end, acc)` over [0, total) in chunks on all cores; `init` runs once per worker
/// thread (thread-local table set-up).  Deterministic: results are merged in worker order and
/// every item is visited exactly once.
pub fn par_ranges<I, F>(total: u64, chunk: u64, init: I, f: F) -> Vec<Acc>
where
    I: Fn() + Sync,
    F: Fn(u64, u64, &mut Acc) + Sync,
{
    if crate::hist::replaying() {
        // `verif replay` of a recorded history only searches the history models
        return Vec::new();
    }
    let next = AtomicU64::new(0);
    let nt = n_threads();
    let chunk = chunk.max(1);
    std::thread::scope(|s| {
        let mut hs = Vec::new();
        for w in 0..nt {
            let next = &next;
            let f = &f;
            let init = &init;
            hs.push(
                std::thread::Builder::new()
                    .name(format!("w{w}"))
                    .stack_size(256 << 20)
                    .spawn_scoped(s, move || {
                        init();
                        let mut acc = Acc::default();
                        loop {
                            let st = next.fetch_add(chunk, Ordering::Relaxed);
                            if st >= total {
                                break;
                            }
                            let en = (st + chunk).min(total);
                            f(st, en, &mut acc);
                        }
                        acc
                    })
                    .unwrap(),
            );
        }
        hs.into_iter()
            .map(|h| match h.join() {
                Ok(a) => a,
                Err(e) => {
                    let msg = e.downcast_ref::<String>().cloned().or_else(|| e.downcast_ref::<&str>().map(|s| s.to_string())).unwrap_or_default();
                    println!("MACHINERY-FAILURE worker panicked outside a guarded case: {msg}");
                    std::process::exit(2);
                }
            })
            .collect()
    })
}

#[derive(Clone, Debug, PartialEq, Eq)]
pub enum Shape {
    Leaf,
    Un(Box<Shape>),
    Bin(Box<Shape>, Box<Shape>),
}

/// all shapes with exactly `n` leaves and `u` unary applications (stacks allowed)
pub fn shapes(n: usize, u: usize) -> Vec<Shape> {
    let mut out = Vec::new();
    if n == 1 && u == 0 {
        out.push(Shape::Leaf);
    }
    if u > 0 {
        for s in shapes(n, u - 1) {
            out.push(Shape::Un(Box::new(s)));
        }
    }
    for nl in 1..n {
        for ul in 0..=u {
            let ls = shapes(nl, ul);
            let rs = shapes(n - nl, u - ul);
            for l in &ls {
                for r in &rs {
                    out.push(Shape::Bin(Box::new(l.clone()), Box::new(r.clone())));
                }
            }
        }
    }
    out
}

#[derive(Clone, Debug)]
pub struct Alphabet {
    pub leaves: Vec<Tree>,
    pub uns: Vec<u16>,
    pub bins: Vec<u16>,
}

impl Shape {
    pub fn label_count(&self, a: &Alphabet) -> u64 {
        match self {
            Shape::Leaf => a.leaves.len() as u64,
            Shape::Un(s) => (a.uns.len() as u64).saturating_mul(s.label_count(a)),
            Shape::Bin(l, r) => (a.bins.len() as u64).saturating_mul(l.label_count(a)).saturating_mul(r.label_count(a)),
        }
    }
    /// the `idx`-th labelling (mixed radix, pre-order, first slot fastest)
    pub fn build(&self, a: &Alphabet, idx: &mut u64) -> Tree {
        match self {
            Shape::Leaf => {
                let k = (*idx % a.leaves.len() as u64) as usize;
                *idx /= a.leaves.len() as u64;
                a.leaves[k].clone()
            }
            Shape::Un(s) => {
                let k = (*idx % a.uns.len() as u64) as usize;
                *idx /= a.uns.len() as u64;
                Tree::un(a.uns[k], s.build(a, idx))
            }
            Shape::Bin(l, r) => {
                let k = (*idx % a.bins.len() as u64) as usize;
                *idx /= a.bins.len() as u64;
                let lt = l.build(a, idx);
                let rt = r.build(a, idx);
                Tree::bin(a.bins[k], lt, rt)
            }
        }
    }
}

/// an indexable family of trees: all labellings of all shapes with (n, u) in `sizes`
pub struct TreeSpace {
    pub alphabet: Alphabet,
    pub shapes: Vec<Shape>,
    /// prefix sums of label counts
    pub offsets: Vec<u64>,
    pub total: u64,
}
impl TreeSpace {
    pub fn new(alphabet: Alphabet, sizes: &[(usize, usize)]) -> Self {
        let mut sh = Vec::new();
        for &(n, u) in sizes {
            if u > 0 && alphabet.uns.is_empty() {
                continue;
            }
            if n > 1 && alphabet.bins.is_empty() {
                continue;
            }
            sh.extend(shapes(n, u));
        }
        let mut offsets = Vec::with_capacity(sh.len() + 1);
        let mut tot = 0u64;
        for s in &sh {
            offsets.push(tot);
            tot += s.label_count(&alphabet);
        }
        offsets.push(tot);
        TreeSpace { alphabet, shapes: sh, offsets, total: tot }
    }
    pub fn get(&self, idx: u64) -> Tree {
        let si = match self.offsets.binary_search(&idx) {
            Ok(mut i) => {
                // skip empty shapes
                while self.offsets[i + 1] == self.offsets[i] {
                    i += 1;
                }
                i
            }
            Err(i) => i - 1,
        };
        let mut local = idx - self.offsets[si];
        self.shapes[si].build(&self.alphabet, &mut local)
    }
}

/// all sizes (n, u) with n <= max_n, u <= max_u, simplest first
pub fn sizes_upto(max_n: usize, max_u: usize) -> Vec<(usize, usize)> {
    let mut v = Vec::new();
    for n in 1..=max_n {
        for u in 0..=max_u {
            v.push((n, u));
        }
    }
    v
}

/// all strings over `alphabet` (token list) of length 0..=max_len, indexable
pub struct StringSpace {
    pub k: u64,
    pub max_len: usize,
    pub offsets: Vec<u64>,
    pub total: u64,
}
impl StringSpace {
    pub fn new(k: usize, max_len: usize) -> Self {
        let mut offsets = vec![];
        let mut tot = 0u64;
        for l in 0..=max_len {
            offsets.push(tot);
            tot += (k as u64).pow(l as u32);
        }
        offsets.push(tot);
        StringSpace { k: k as u64, max_len, offsets, total: tot }
    }
    /// symbol indices of the idx-th string
    pub fn get(&self, idx: u64, out: &mut Vec<usize>) {
        out.clear();
        let len = match self.offsets.binary_search(&idx) {
            Ok(i) => i,
            Err(i) => i - 1,
        };
        let mut local = idx - self.offsets[len];
        for _ in 0..len {
            out.push((local % self.k) as usize);
            local /= self.k;
        }
    }
}

/// Heap's algorithm: all permutations of 0..n
pub fn permutations(n: usize) -> Vec<Vec<usize>> {
    let mut out = Vec::new();
    let mut a: Vec<usize> = (0..n).collect();
    fn rec(k: usize, a: &mut Vec<usize>, out: &mut Vec<Vec<usize>>) {
        if k <= 1 {
            out.push(a.clone());
            return;
        }
        for i in 0..k {
            rec(k - 1, a, out);
            if k % 2 == 0 {
                a.swap(i, k - 1);
            } else {
                a.swap(0, k - 1);
            }
        }
    }
    rec(n, &mut a, &mut out);
    out.sort();
    out
}
