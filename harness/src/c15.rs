//! C15 - consuming evaluation agrees with borrowing evaluation.
use crate::common::*;
use crate::enumr::*;
use crate::report::*;
use crate::spec::{self, LitKind, SpecResult, Tree};
use crate::sym::*;
use exmex::prelude::*;
use exmex::Express;
use serde_json::json;
use std::sync::Arc;

fn table() -> Arc<Table> {
    Table::new(vec![
        OpDesc::bin_un("+", 0, true),  // 0
        OpDesc::bin("*", 1, true),     // 1
        OpDesc::bin_un("-", 0, false), // 2
        OpDesc::bin("/", 1, false),    // 3
        OpDesc::un("f"),               // 4
    ])
}

fn count_var(t: &Tree, name: &str) -> usize {
    match t {
        Tree::Var(v) => (v == name) as usize,
        Tree::Un(_, a) => count_var(a, name),
        Tree::Bin(_, a, b) => count_var(a, name) + count_var(b, name),
        _ => 0,
    }
}

#[derive(Clone, Copy, Debug)]
enum Form {
    P,
    W,
    DF,
    /// evaluation history on one expression: parse_wo_compile, eval_vec once, compile(), then
    /// the comparison
    WC,
    /// derived expression whose variable list has a name that does not occur: (a*0) + T
    UnusedFirst,
    /// the same with a name that sorts last: (w*0) + T
    UnusedLast,
}

fn build(form: Form, text: &str) -> Result<SFlat, String> {
    match form {
        Form::P => SFlat::parse(text).map_err(|e| e.msg().to_string()),
        Form::W => SFlat::parse_wo_compile(text).map_err(|e| e.msg().to_string()),
        Form::WC => {
            let mut f = SFlat::parse_wo_compile(text).map_err(|e| e.msg().to_string())?;
            let n = f.var_names().len();
            let _ = f.eval_vec(var_syms(n));
            f.compile();
            Ok(f)
        }
        Form::DF => {
            let d = SDeep::parse(text).map_err(|e| e.msg().to_string())?;
            SFlat::from_deepex(d).map_err(|e| e.msg().to_string())
        }
        Form::UnusedFirst | Form::UnusedLast => {
            let extra = if matches!(form, Form::UnusedFirst) { "a" } else { "w" };
            let d = SDeep::parse(text).map_err(|e| e.msg().to_string())?;
            let z = (SDeep::parse(extra).map_err(|e| e.msg().to_string())? * SDeep::zero()).map_err(|e| e.msg().to_string())?;
            let sum = (z + d).map_err(|e| e.msg().to_string())?;
            SFlat::from_deepex(sum).map_err(|e| e.msg().to_string())
        }
    }
}

fn check_text(text: &str, tree: &Tree, t: &Table, acc: &mut Acc) {
    let vars = tree.vars();
    let n = vars.len();
    let expect = nf_ac(&tree.eval_sym(&vars, t), t);
    acc.states += 1;
    acc.evaluations += 1;
    if vars.iter().any(|v| count_var(tree, v) > 1) {
        acc.nontrivial += 1;
    }
    let base_vars = vars.clone();
    let base_expect = expect.clone();
    for form in [Form::P, Form::W, Form::WC, Form::DF, Form::UnusedFirst, Form::UnusedLast] {
        // the derived forms carry one more (unused) variable
        let (vars, n, expect) = match form {
            Form::UnusedFirst | Form::UnusedLast => {
                let extra = if matches!(form, Form::UnusedFirst) { "a" } else { "w" };
                let mut v = base_vars.clone();
                v.push(extra.to_string());
                v.sort();
                let e = nf_ac(&tree.eval_sym(&v, t), t);
                let n = v.len();
                (v, n, e)
            }
            _ => (base_vars.clone(), base_vars.len(), base_expect.clone()),
        };
        let r = guard(|| -> Result<(), String> {
            let e = build(form, text)?;
            if e.var_names() != vars.as_slice() {
                return Err(format!("variables {:?} instead of {vars:?}", e.var_names()));
            }
            let r0 = e.eval(&var_syms(n)).map_err(|e| format!("eval failed: {}", e.msg()))?;
            if nf_ac(&r0, t) != expect {
                return Err(format!("eval gives {} (C01's business, reported here as well)", show(&r0, t)));
            }
            reset_var_clones();
            let r1 = e.eval_vec(var_syms(n)).map_err(|e| format!("eval_vec failed: {}", e.msg()))?;
            let clones_vec: Vec<u32> = (0..n as u32).map(var_clones).collect();
            reset_var_clones();
            let r2 = e.eval_iter(var_syms(n).into_iter()).map_err(|e| format!("eval_iter failed: {}", e.msg()))?;
            let clones_iter: Vec<u32> = (0..n as u32).map(var_clones).collect();
            acc.transitions += 3;
            if r1.contains_dflt() || r2.contains_dflt() {
                return Err(format!("a moved-out placeholder reached an operator: eval_vec {} eval_iter {}", show(&r1, t), show(&r2, t)));
            }
            if r1 != r0 {
                return Err(format!("eval_vec gives {} but eval gives {}", show(&r1, t), show(&r0, t)));
            }
            if r2 != r0 {
                return Err(format!("eval_iter gives {} but eval gives {}", show(&r2, t), show(&r0, t)));
            }
            for (i, v) in vars.iter().enumerate() {
                let occ = count_var(tree, v);
                if occ == 1 {
                    acc.count("single_occurrence_variables_checked_for_move", 1);
                    if clones_vec[i] != 0 || clones_iter[i] != 0 {
                        return Err(format!("variable {v} occurs once but was cloned (eval_vec {} / eval_iter {} clones)", clones_vec[i], clones_iter[i]));
                    }
                } else if clones_vec[i] > 0 {
                    acc.count("multi_occurrence_variables_cloned", 1);
                }
            }
            // arity
            for len in [n + 1, n + 2].into_iter().chain(if n > 0 { Some(n - 1) } else { None }) {
                acc.transitions += 2;
                if e.eval_vec(var_syms(len)).is_ok() {
                    return Err(format!("eval_vec accepted {len} values for {n} variables"));
                }
                if e.eval_iter(var_syms(len).into_iter()).is_ok() {
                    return Err(format!("eval_iter accepted {len} values for {n} variables"));
                }
                // iterators whose size hint is not exact: (0, Some(len)) and (0, None)
                if e.eval_iter(var_syms(len).into_iter().filter(|_| true)).is_ok() {
                    return Err(format!("eval_iter accepted {len} values for {n} variables from a filtering iterator (size hint (0, Some({len})))"));
                }
                let mut src = var_syms(len).into_iter();
                if e.eval_iter(std::iter::from_fn(move || src.next())).is_ok() {
                    return Err(format!("eval_iter accepted {len} values for {n} variables from iter::from_fn (size hint (0, None))"));
                }
            }
            // the same iterators with the right number of values
            let r3 = e.eval_iter(var_syms(n).into_iter().filter(|_| true)).map_err(|e| format!("eval_iter (filtering iterator) failed: {}", e.msg()))?;
            let mut src = var_syms(n).into_iter();
            let r4 = e.eval_iter(std::iter::from_fn(move || src.next())).map_err(|e| format!("eval_iter (iter::from_fn) failed: {}", e.msg()))?;
            acc.transitions += 2;
            if r3 != r0 || r4 != r0 {
                return Err(format!("eval_iter from an iterator without exact size hint gives {} / {} but eval gives {}", show(&r3, t), show(&r4, t), show(&r0, t)));
            }
            Ok(())
        });
        let bad = match r {
            Ok(Ok(())) => None,
            Ok(Err(m)) => Some(m),
            Err(p) => Some(format!("PANIC {}", panic_site(&p))),
        };
        if let Some(m) = bad {
            let kind: String = m.chars().take_while(|c| !c.is_ascii_digit() && *c != '(' && *c != '{').take(40).collect();
            acc.violate(Violation {
                signature: format!("{form:?}:{kind}"),
                what: format!("{form:?} on {text:?}: {m}"),
                case: json!({"engine": "c15", "text": text, "table": t.describe()}),
            });
        }
    }
}

pub fn replay(case: &serde_json::Value) -> i32 {
    install_panic_hook();
    let table = Table::from_json(&case["table"]);
    set_table(&table);
    let text = case["text"].as_str().unwrap_or("");
    let SpecResult::Ok(tree) = spec::read(text, &table, LitKind::Sym) else { return 2 };
    let mut acc = Acc::default();
    check_text(text, &tree, &table, &mut acc);
    for v in &acc.violations {
        println!("{}", v.what);
    }
    if acc.violations.is_empty() {
        println!("=> holds for {text:?}");
        0
    } else {
        1
    }
}

pub fn run(tier: Tier) -> i32 {
    let mut rep = Report::new("C15", tier);
    rep.rule = "all operand sequences over {x,y,z,literal} up to the length bound as chains under three operator patterns with an optional unary operator on any operand, and all trees of the listed sizes over the same leaves; texts with 16..257 (thorough ..300) distinct variables and repeated variables at distinguished positions; folded, unfolded and deep-derived flat expressions; eval_vec / eval_iter vs eval on a clone-counting, default-detecting data type; distinct = distinct texts; non-trivial = some variable occurs more than once".into();
    rep.assumptions = vec!["clones are counted in the data type's Clone impl, per variable value".into()];
    let t = table();
    let max_len = if tier.thorough() { 9 } else { 7 };
    let operands = ["x", "y", "z", "1"];
    let patterns: [&[&str]; 4] = [&["+"], &["*", "+"], &["-"], &["/", "-", "*"]];
    let sp = StringSpace::new(4, max_len);
    let accs = par_ranges(
        sp.total,
        128,
        || {
            install_panic_hook();
            set_table(&t);
        },
        |st, en, acc| {
            let mut idxs = Vec::new();
            for i in st..en {
                sp.get(i, &mut idxs);
                if idxs.is_empty() {
                    continue;
                }
                for (pi, pat) in patterns.iter().enumerate() {
                    // unary position: none, or on operand u
                    for u in 0..=idxs.len() {
                        if u > 0 && !(pi == 1 || idxs.len() <= 4) {
                            continue;
                        }
                        let mut text = String::new();
                        for (j, &k) in idxs.iter().enumerate() {
                            if j > 0 {
                                text.push_str(pat[(j - 1) % pat.len()]);
                            }
                            if u == j + 1 {
                                text.push_str("f(");
                                text.push_str(operands[k]);
                                text.push(')');
                            } else {
                                text.push_str(operands[k]);
                            }
                        }
                        let SpecResult::Ok(tree) = spec::read(&text, &t, LitKind::Sym) else {
                            println!("MACHINERY-FAILURE property=C15 {text:?} not well-formed");
                            std::process::exit(2)
                        };
                        check_text(&text, &tree, &t, acc);
                        if i % 1013 == 0 && u == 0 {
                            acc.sample(json!({"text": text}));
                        }
                    }
                }
            }
        },
    );
    for a in accs {
        rep.absorb(a);
    }
    rep.bounds.push(format!("all operand sequences of length 1..={max_len} over {operands:?} x 4 operator patterns x unary positions: complete"));
    // trees (parentheses, nested unaries)
    let al = Alphabet { leaves: vec![Tree::var("x"), Tree::var("y"), Tree::var("z"), Tree::lit(1)], uns: vec![2, 4], bins: vec![0, 1, 2, 3] };
    let sizes = if tier.thorough() { vec![(1, 1), (2, 0), (2, 1), (2, 2), (3, 0), (3, 1), (3, 2), (4, 0), (4, 1), (5, 0), (5, 1)] } else { vec![(1, 1), (2, 0), (2, 1), (3, 0), (3, 1), (4, 0), (4, 1)] };
    let space = TreeSpace::new(al, &sizes);
    let accs = par_ranges(
        space.total,
        128,
        || {
            install_panic_hook();
            set_table(&t);
        },
        |st, en, acc| {
            let r = renderer(&t);
            for i in st..en {
                let tree = space.get(i);
                let text = r.render_default(&tree);
                check_text(&text, &tree, &t, acc);
            }
        },
    );
    for a in accs {
        rep.absorb(a);
    }
    rep.bounds.push(format!("all {} trees of sizes {sizes:?}: complete", space.total));
    // many variables (beyond the inline capacities 16 / 32 and one machine word of 64): every
    // variable once, then every ordered pair (a, b) of distinguished positions repeated:
    // v0 + v1 + ... + v(n-1) + va * vb - va
    let mut big: Vec<String> = Vec::new();
    let ns: &[usize] = if tier.thorough() { &[15, 16, 17, 31, 32, 33, 63, 64, 65, 66, 70, 127, 128, 129, 130, 200, 255, 256, 257, 258, 300] } else { &[16, 17, 33, 64, 65, 66, 70, 130, 257] };
    for &n in ns {
        let name = |i: usize| format!("v{i:03}");
        let mut marks: Vec<usize> = [0usize, 1, 15, 16, 17, 31, 32, 33, 62, 63, 64, 65, 66, 127, 128, 129, 254, 255, 256].iter().copied().filter(|m| *m < n).collect();
        marks.push(n - 1);
        marks.push(n / 2);
        marks.sort();
        marks.dedup();
        let chain: String = (0..n).map(name).collect::<Vec<_>>().join("+");
        for &a in &marks {
            for &b in &marks {
                big.push(format!("{chain}+{}*{}-{}", name(a), name(b), name(a)));
                if tier.thorough() {
                    big.push(format!("{}*{}-{chain}/{}", name(b), name(a), name(a)));
                }
            }
        }
    }
    // many occurrences in non-grouped order (two passes, forward and reverse, strided
    // permutations, pairs): every variable occurs twice or three times
    for &n in if tier.thorough() { &[17usize, 20, 33, 40, 64, 70, 100][..] } else { &[17usize, 33, 40, 70][..] } {
        let name = |i: usize| format!("v{i:03}");
        let fwd: Vec<usize> = (0..n).collect();
        let rev: Vec<usize> = (0..n).rev().collect();
        let stride = |k: usize| -> Vec<usize> { (0..n).map(|i| (i * k + 3) % n).collect() };
        let strides: Vec<usize> = [7usize, 11, 13].into_iter().filter(|k| n % k != 0).collect();
        let mut orders: Vec<Vec<usize>> = vec![[fwd.clone(), fwd.clone()].concat(), [fwd.clone(), rev.clone()].concat(), [rev.clone(), fwd.clone()].concat(), fwd.iter().flat_map(|i| [*i, *i]).collect()];
        for k in &strides {
            orders.push([stride(*k), fwd.clone()].concat());
            orders.push([fwd.clone(), stride(*k), rev.clone()].concat());
        }
        for o in orders {
            big.push(o.iter().map(|i| name(*i)).collect::<Vec<_>>().join("+"));
            big.push(o.iter().enumerate().map(|(j, i)| format!("{}{}", if j == 0 { "" } else if j % 3 == 0 { "*" } else { "-" }, name(*i))).collect::<String>());
        }
    }
    let accs = par_ranges(
        big.len() as u64,
        1,
        || {
            install_panic_hook();
            set_table(&t);
        },
        |st, en, acc| {
            for i in st..en {
                let text = &big[i as usize];
                let SpecResult::Ok(tree) = spec::read(text, &t, LitKind::Sym) else {
                    println!("MACHINERY-FAILURE property=C15 many-variables text not well-formed");
                    std::process::exit(2)
                };
                check_text(text, &tree, &t, acc);
            }
        },
    );
    for a in accs {
        rep.absorb(a);
    }
    rep.bounds.push(format!("many variables: {} texts with n in {ns:?} distinct variables and every ordered pair of distinguished positions (0, 1, 15..17, 31..33, 62..66, 127..129, 254..256, n/2, n-1) repeated: complete", big.len()));
    rep.finish()
}
