//! C06 - no input text can crash the library.
use crate::common::*;
use crate::enumr::StringSpace;
use crate::report::*;
use crate::sweep::Family;
use exmex::prelude::*;
use exmex::{DeepEx, Differentiate, Express, MakeOperators, Val, ValMatcher, ValOpsFactory};
use serde_json::json;

type VDeep<'a> = DeepEx<'a, Val<i32, f64>, ValOpsFactory<i32, f64>, ValMatcher>;

fn viol(acc: &mut Acc, entry: &str, step: &str, text: &str, p: &str) {
    let shown: String = text.chars().take(200).collect();
    acc.violate(Violation {
        signature: format!("panic:{entry}:{step}:{}", panic_site(p)),
        what: format!("{entry} / {step} panicked on {shown:?}: {p}"),
        case: json!({"engine": "c06-text", "text": text}),
    });
}

macro_rules! step {
    ($acc:expr, $entry:expr, $name:expr, $text:expr, $body:expr) => {{
        $acc.transitions += 1;
        match guard(|| $body) {
            Ok(v) => Some(v),
            Err(p) => {
                viol($acc, $entry, $name, $text, &p);
                None
            }
        }
    }};
}

fn follow_flat_f64(e: &FlatEx<f64>, entry: &str, text: &str, acc: &mut Acc, stages: u8) {
    let n = e.var_names().len();
    let vals: Vec<f64> = (0..n).map(|i| 0.5 + i as f64).collect();
    if stages & ST_PARSE != 0 {
        step!(acc, entry, "eval", text, e.eval(&vals).is_ok());
    }
    if stages & ST_CONVERT != 0 {
    step!(acc, entry, "eval_relaxed", text, e.eval_relaxed(&vals).is_ok());
    step!(acc, entry, "eval_vec", text, e.eval_vec(vals.clone()).is_ok());
    step!(acc, entry, "eval_iter", text, e.eval_iter(vals.iter().copied()).is_ok());
    step!(acc, entry, "eval(wrong length)", text, e.eval(&vals[..n.saturating_sub(1)]).is_ok());
    step!(acc, entry, "unparse+listings", text, {
        let _ = e.unparse().len();
        let _ = format!("{e}");
        let _ = e.unary_reprs();
        let _ = e.binary_reprs();
        let _ = e.operator_reprs();
        let _ = e.var_indices_ordered();
    });
    let d = step!(acc, entry, "to_deepex", text, e.clone().to_deepex());
    if let Some(Ok(d)) = d {
        step!(acc, entry, "deep eval", text, d.eval(&vals).is_ok());
        step!(acc, entry, "deep listings", text, {
            let _ = d.unparse().len();
            let _ = d.unary_reprs();
            let _ = d.binary_reprs();
            let _ = d.operator_reprs();
        });
        let f2 = step!(acc, entry, "from_deepex", text, FlatEx::<f64>::from_deepex(d.clone()));
        if let Some(Ok(f2)) = f2 {
            step!(acc, entry, "eval after round trip", text, f2.eval(&vals).is_ok());
            step!(acc, entry, "reparse of unparse", text, FlatEx::<f64>::parse(f2.unparse()).is_ok());
        }
    }
    step!(acc, entry, "compile again", text, {
        let mut c = e.clone();
        c.compile();
        c.eval(&vals).is_ok()
    });
    step!(acc, entry, "serde", text, {
        let s = serde_json::to_string(e).unwrap_or_default();
        serde_json::from_str::<FlatEx<f64>>(&s).is_ok()
    });
    }
    if stages & ST_OPERATE != 0 {
        step!(acc, entry, "operate_unary", text, e.clone().operate_unary("sin").map(|p| p.eval(&vals).is_ok()).is_ok());
        step!(acc, entry, "operate_binary", text, e.clone().operate_binary(e.clone(), "+").map(|p| p.eval(&vals).is_ok()).is_ok());
        step!(acc, entry, "subs(identity)", text, e.clone().subs(&mut |_: &str| None).map(|p| p.eval(&vals).is_ok()).is_ok());
    }
    if stages & ST_DIFF != 0 {
        step!(acc, entry, "partial(0)", text, e.clone().partial(0).map(|p| p.eval(&vals).is_ok()).is_ok());
        if text.len() < 120 {
            step!(acc, entry, "partial_nth(0,2)", text, e.clone().partial_nth(0, 2).is_ok());
        }
        step!(acc, entry, "partial(n)", text, e.clone().partial(n).is_ok());
        if let Some(Ok(d)) = step!(acc, entry, "to_deepex", text, e.clone().to_deepex()) {
            step!(acc, entry, "deep partial(0)", text, d.clone().partial(0).map(|p| p.eval(&vals).is_ok()).is_ok());
        }
    }
}

pub const ST_PARSE: u8 = 1;
pub const ST_CONVERT: u8 = 2;
pub const ST_OPERATE: u8 = 4;
pub const ST_DIFF: u8 = 8;
pub const ST_ALL: u8 = 15;
pub const STAGE_NAMES: [&str; 4] = ["parse+eval", "convert+list", "operate+subs", "differentiate"];

pub fn run_f64_text(text: &str, acc: &mut Acc, stages: u8) {
    acc.evaluations += 1;
    acc.states += 1;
    let mut accepted = false;
    if let Some(Ok(e)) = step!(acc, "FlatEx::<f64>::parse", "parse", text, FlatEx::<f64>::parse(text)) {
        accepted = true;
        follow_flat_f64(&e, "FlatEx::<f64>::parse", text, acc, stages);
    }
    if let Some(Ok(e)) = step!(acc, "FlatEx::<f64>::parse_wo_compile", "parse", text, FlatEx::<f64>::parse_wo_compile(text)) {
        follow_flat_f64(&e, "FlatEx::<f64>::parse_wo_compile", text, acc, stages);
    }
    if stages & ST_PARSE != 0 {
        step!(acc, "eval_str::<f64>", "eval_str", text, exmex::eval_str::<f64>(text).is_ok());
        step!(acc, "eval_str::<f32>", "eval_str", text, exmex::eval_str::<f32>(text).is_ok());
    }
    if let Some(Ok(d)) = step!(acc, "DeepEx::<f64>::parse", "parse", text, DeepEx::<f64>::parse(text)) {
        let n = d.var_names().len();
        let vals: Vec<f64> = (0..n).map(|i| 0.5 + i as f64).collect();
        if stages & ST_PARSE != 0 {
            step!(acc, "DeepEx::<f64>::parse", "eval", text, d.eval(&vals).is_ok());
        }
        if stages & ST_CONVERT != 0 {
            step!(acc, "DeepEx::<f64>::parse", "eval_relaxed(short)", text, d.eval_relaxed(&vals[..n.saturating_sub(1)]).is_ok());
            step!(acc, "DeepEx::<f64>::parse", "listings", text, {
                let _ = d.unparse().len();
                let _ = d.operator_reprs();
            });
            step!(acc, "DeepEx::<f64>::parse", "from_deepex", text, FlatEx::<f64>::from_deepex(d.clone()).map(|f| f.eval(&vals).is_ok()).is_ok());
        }
        if stages & ST_DIFF != 0 {
            step!(acc, "DeepEx::<f64>::parse", "partial(0)", text, d.clone().partial(0).is_ok());
        }
        if stages & ST_OPERATE != 0 {
            step!(acc, "DeepEx::<f64>::parse", "operate/neg/pow", text, {
                let _ = d.clone().operate_unary("cos").is_ok();
                let _ = (-d.clone()).is_ok();
                let _ = (d.clone() + d.clone()).is_ok();
                let _ = (d.clone() * d.clone()).is_ok();
                let _ = (d.clone() / d.clone()).is_ok();
                let _ = d.clone().pow(d.clone()).is_ok();
            });
        }
    }
    if stages & ST_PARSE != 0 {
        step!(acc, "line_2_statement::<f64>", "parse", text, exmex::statements::line_2_statement::<f64, exmex::FloatOpsFactory<f64>, exmex::NumberMatcher>(text).is_ok());
        step!(acc, "serde_json::from_str::<FlatEx<f64>>", "deserialize", text, {
            let js = serde_json::to_string(text).unwrap_or_default();
            serde_json::from_str::<FlatEx<f64>>(&js).is_ok()
        });
    }
    if accepted {
        acc.nontrivial += 1;
        acc.count("texts_accepted(follow-up calls exercised)", 1);
    }
}

pub fn run_val_text(text: &str, acc: &mut Acc, stages: u8) {
    acc.evaluations += 1;
    acc.states += 1;
    let entry = "parse_val::<i32,f64>";
    if let Some(Ok(e)) = step!(acc, entry, "parse", text, exmex::parse_val::<i32, f64>(text)) {
        acc.nontrivial += 1;
        acc.count("texts_accepted(follow-up calls exercised)", 1);
        let n = e.var_names().len();
        for (vn, mk) in [("float", (|i| Val::Float(0.5 + i as f64)) as fn(usize) -> Val<i32, f64>), ("int", |i| Val::Int(i as i32 + 2)), ("bool", |i| Val::Bool(i % 2 == 0))] {
            let vals: Vec<Val<i32, f64>> = (0..n).map(mk).collect();
            step!(acc, entry, &format!("eval({vn})"), text, e.eval(&vals).is_ok());
            if n == 0 {
                break;
            }
        }
        let vals: Vec<Val<i32, f64>> = (0..n).map(|i| Val::Float(0.5 + i as f64)).collect();
        if stages & ST_CONVERT != 0 {
            step!(acc, entry, "eval_vec", text, e.eval_vec(vals.clone()).is_ok());
            step!(acc, entry, "listings", text, {
                let _ = e.unparse().len();
                let _ = e.operator_reprs();
            });
            if let Some(Ok(d)) = step!(acc, entry, "to_deepex", text, e.clone().to_deepex()) {
                step!(acc, entry, "deep eval", text, d.eval(&vals).is_ok());
                step!(acc, entry, "from_deepex", text, exmex::FlatExVal::<i32, f64>::from_deepex(d).map(|f| f.eval(&vals).is_ok()).is_ok());
            }
        }
        if stages & ST_DIFF != 0 {
            step!(acc, entry, "partial(0)", text, e.clone().partial(0).map(|p| p.eval(&vals).is_ok()).is_ok());
        }
        if stages & ST_OPERATE != 0 {
            step!(acc, entry, "operate_unary", text, e.clone().operate_unary("-").map(|p| p.eval(&vals).is_ok()).is_ok());
            step!(acc, entry, "subs(identity)", text, e.clone().subs(&mut |_: &str| None).is_ok());
        }
    }
    if stages & ST_PARSE != 0 {
        step!(acc, "DeepEx::<Val>::parse", "parse", text, VDeep::parse(text).map(|d| d.unparse().len()).is_ok());
        step!(acc, "line_2_statement_val", "parse", text, exmex::line_2_statement_val::<i32, f64>(text).is_ok());
    }
}

// ---------------------------------------------------------------------------------------------

pub struct Strings {
    pub name: String,
    pub val: bool,
    pub tokens: Vec<String>,
    pub sep: &'static str,
    pub space: StringSpace,
}
impl Strings {
    fn text(&self, idx: u64) -> String {
        let mut ix = Vec::new();
        self.space.get(idx, &mut ix);
        ix.iter().map(|&k| self.tokens[k].as_str()).collect::<Vec<_>>().join(self.sep)
    }
}
impl Family for Strings {
    fn name(&self) -> String {
        self.name.clone()
    }
    fn total(&self) -> u64 {
        self.space.total
    }
    fn run_case(&self, idx: u64, acc: &mut Acc) {
        let t = self.text(idx);
        if self.val {
            run_val_text(&t, acc, ST_ALL)
        } else {
            run_f64_text(&t, acc, ST_ALL)
        }
        if idx % 200003 == 11 {
            acc.sample(json!({"family": self.name, "text": t}));
        }
    }
    fn describe(&self, idx: u64) -> String {
        format!("{:?}", self.text(idx))
    }
}

/// all <=2-token edits of well-formed base texts
pub struct Edits {
    pub name: String,
    pub val: bool,
    pub bases: Vec<Vec<String>>,
    pub alphabet: Vec<String>,
    pub double: bool,
}
impl Edits {
    fn n_single(&self, m: usize) -> u64 {
        let k = self.alphabet.len();
        (m + (m + 1) * k + m * k) as u64
    }
    fn apply(&self, v: &[String], e: u64) -> Option<Vec<String>> {
        let m = v.len();
        let k = self.alphabet.len();
        let mut e = e as usize;
        let mut out = v.to_vec();
        if e < m {
            out.remove(e);
            return Some(out);
        }
        e -= m;
        if e < (m + 1) * k {
            out.insert(e / k, self.alphabet[e % k].clone());
            return Some(out);
        }
        e -= (m + 1) * k;
        if e < m * k {
            out[e / k] = self.alphabet[e % k].clone();
            return Some(out);
        }
        None
    }
    fn max_single(&self) -> u64 {
        let mm = self.bases.iter().map(|b| b.len()).max().unwrap_or(0);
        self.n_single(mm + 1)
    }
    fn per_base(&self) -> u64 {
        if self.double {
            self.max_single() * self.max_single()
        } else {
            self.max_single()
        }
    }
    fn text(&self, idx: u64) -> Option<String> {
        let pb = self.per_base();
        let base = &self.bases[(idx / pb) as usize];
        let local = idx % pb;
        let v = if self.double {
            let ms = self.max_single();
            let v1 = self.apply(base, local / ms)?;
            self.apply(&v1, local % ms)?
        } else {
            self.apply(base, local)?
        };
        Some(v.join(" "))
    }
}
impl Family for Edits {
    fn name(&self) -> String {
        self.name.clone()
    }
    fn total(&self) -> u64 {
        self.bases.len() as u64 * self.per_base()
    }
    fn run_case(&self, idx: u64, acc: &mut Acc) {
        match self.text(idx) {
            Some(t) => {
                if self.val {
                    run_val_text(&t, acc, ST_ALL)
                } else {
                    run_f64_text(&t, acc, ST_ALL)
                }
                if idx % 100003 == 11 {
                    acc.sample(json!({"family": self.name, "text": t}));
                }
            }
            None => acc.count("edit_index_out_of_range(skipped)", 1),
        }
    }
    fn describe(&self, idx: u64) -> String {
        format!("{:?}", self.text(idx))
    }
}

/// deterministic families parameterised by depth / length
pub struct Deep {
    pub val: bool,
    pub depths: Vec<usize>,
}
const DEEP_KINDS: usize = 14;
const DEEP_KIND_NAMES: [&str; 14] = ["((x))", "sin(sin(x))", "-(-(x))", "max(max(x,1),1)", "max(1,max(1,x))", "x0+x1+...", "(1+(1+x*2)*2)", "---x", "sin cos sin cos x", "((1)^2)^2", "2*y1*y2*2*...", "((x+1)*((x+1)*x))", "(((x", "x)))"];
impl Deep {
    fn split(&self, idx: u64) -> (usize, usize, usize) {
        let stage = (idx % 4) as usize;
        let r = (idx / 4) as usize;
        (r % DEEP_KINDS, self.depths[r / DEEP_KINDS], stage)
    }
    fn text(&self, idx: u64) -> String {
        let (kind, d, _) = self.split(idx);
        let rep = |s: &str, n: usize| s.repeat(n);
        match kind {
            0 => format!("{}x{}", rep("(", d), rep(")", d)),
            1 => format!("{}x{}", rep("sin(", d), rep(")", d)),
            2 => format!("{}x{}", rep("-(", d), rep(")", d)),
            3 => format!("{}x{}", rep("max(", d), rep(",1)", d)),
            4 => format!("{}x{}", rep("max(1,", d), rep(")", d)),
            5 => (0..d * 10).map(|i| format!("x{}", i % 7)).collect::<Vec<_>>().join("+"),
            6 => format!("{}x{}", rep("(1+", d), rep("*2)", d)),
            7 => format!("{}x", rep("-", d * 10)),
            8 => format!("{}x{}", rep("sin cos ", d), ""),
            9 => format!("{}1{}", rep("(", d), rep(")^2", d)),
            10 => (0..d * 10).map(|i| if i % 3 == 0 { "2".to_string() } else { format!("y{}", i % 5) }).collect::<Vec<_>>().join(["*", "-", "/", "^"][d % 4]),
            11 => format!("{}x{}", rep("((x+1)*", d), rep(")", d)),
            12 => format!("{}x", rep("(", d)),
            _ => format!("x{}", rep(")", d)),
        }
    }
}
impl Family for Deep {
    fn name(&self) -> String {
        format!("deterministic depth/length families ({})", if self.val { "val" } else { "f64" })
    }
    fn total(&self) -> u64 {
        (self.depths.len() * DEEP_KINDS * 4) as u64
    }
    fn run_case(&self, idx: u64, acc: &mut Acc) {
        let t = self.text(idx);
        let (kind, d, stage) = self.split(idx);
        if self.val {
            run_val_text(&t, acc, 1 << stage)
        } else {
            run_f64_text(&t, acc, 1 << stage)
        }
        if idx % 397 == 0 {
            acc.sample(json!({"family": "deep", "kind": DEEP_KIND_NAMES[kind], "depth_or_tenth_of_length": d, "stage": STAGE_NAMES[stage], "text_prefix": t.chars().take(60).collect::<String>()}));
        }
    }
    fn describe(&self, idx: u64) -> String {
        let t = self.text(idx);
        let (kind, d, stage) = self.split(idx);
        format!("kind {} depth {d} stage {}: {:?}...", DEEP_KIND_NAMES[kind], STAGE_NAMES[stage], t.chars().take(100).collect::<String>())
    }
    fn chunk_hint(&self) -> Option<u64> {
        Some(1)
    }
    fn crash_signature(&self, idx: u64) -> String {
        // the call site that dies: stage (parse / convert / operate / differentiate) and data type;
        // which nesting shapes reach the stack limit first shifts with every rebuild
        let (_, _, stage) = self.split(idx);
        format!("{}:deeply-nested-or-long-expression:{}", if self.val { "val" } else { "f64" }, STAGE_NAMES[stage])
    }
}

/// differentiation with respect to *every* variable (strict and the relaxed modes, first and
/// second order) of texts in which an operator sits in a nested group that mentions only some of
/// the variables; flat, uncompiled, deep and converted forms
pub struct DiffAll {
    pub val: bool,
    pub texts: Vec<String>,
}
impl DiffAll {
    pub fn new(val: bool, th: bool) -> Self {
        let bins: Vec<&str> = if val {
            let mut b = vec!["%", "&&", "<<", "==", "<", "min", "+", "*", "/", "^", "."];
            if th {
                b.extend(["||", ">>", "!=", ">=", "max", "-", "|", "&", "dot", "cross", "atan2"]);
            }
            b
        } else {
            vec!["atan2", "min", "max", "+", "*", "/", "^", "-"]
        };
        let mut texts = Vec::new();
        for o in &bins {
            let alpha = o.chars().all(|c| c.is_ascii_alphanumeric());
            let call = |a: &str, b: &str| if alpha { format!("{o}({a},{b})") } else { format!("({a}{o}{b})") };
            let inf = |a: &str, b: &str| format!("({a} {o} {b})");
            for (a, b) in [("a", "b"), ("b", "z"), ("a", "2"), ("3", "b"), ("y", "z")] {
                for g in [call(a, b), inf(a, b)] {
                    texts.push(format!("{g}+z"));
                    texts.push(format!("a*{g}-y"));
                    texts.push(format!("sin({g})*z"));
                    texts.push(format!("-({g})/c"));
                    texts.push(format!("z-sin(-({g}))"));
                    texts.push(format!("({g}+c)*({g}-z)"));
                    if th {
                        texts.push(format!("z^{g}"));
                        texts.push(format!("{g}^z+c"));
                        texts.push(format!("ln(c+{g})"));
                        texts.push(format!("((({g})))*c+z"));
                    }
                }
            }
        }
        if val {
            for c in ["a%2==0", "(a>0)&&(b>0)", "c<a"] {
                texts.push(format!("z*a if {c} else z+b"));
                texts.push(format!("sin(-(z*a if {c} else z+b))"));
                texts.push(format!("(a if {c} else b)*z"));
            }
        }
        texts.sort();
        texts.dedup();
        DiffAll { val, texts }
    }
}
fn diff_every_variable<E: Differentiate<'static, T> + Express<'static, T> + Clone, T: exmex::DiffDataType>(e: &E, vals: &[T], entry: &str, text: &str, acc: &mut Acc)
where
    <T as std::str::FromStr>::Err: std::fmt::Debug,
{
    let n = e.var_names().len();
    for i in 0..=n {
        step!(acc, entry, "partial(i)", text, e.clone().partial(i).map(|p| p.eval(vals).is_ok()).is_ok());
        for (mode, mn) in [(exmex::MissingOpMode::PerOperand, "PerOperand"), (exmex::MissingOpMode::None, "None"), (exmex::MissingOpMode::Error, "Error")] {
            step!(acc, entry, &format!("partial_relaxed(i,{mn})"), text, e.clone().partial_relaxed(i, mode).map(|p| p.eval(vals).is_ok()).is_ok());
        }
        step!(acc, entry, "partial_nth(i,2)", text, e.clone().partial_nth(i, 2).map(|p| p.eval(vals).is_ok()).is_ok());
        for j in 0..n {
            step!(acc, entry, "partial_iter([i,j])", text, e.clone().partial_iter([i, j].into_iter()).map(|p| p.eval(vals).is_ok()).is_ok());
        }
    }
}
impl Family for DiffAll {
    fn name(&self) -> String {
        format!("differentiation with respect to every variable ({})", if self.val { "val" } else { "f64" })
    }
    fn total(&self) -> u64 {
        self.texts.len() as u64
    }
    fn run_case(&self, idx: u64, acc: &mut Acc) {
        let text = self.texts[idx as usize].as_str();
        // (expressions borrow nothing from the text after parsing, but the trait wants 'static)
        let text: &'static str = crate::sym::intern(text);
        acc.evaluations += 1;
        acc.states += 1;
        if self.val {
            type VF = exmex::FlatExVal<i32, f64>;
            let mk = |n: usize| -> Vec<Val<i32, f64>> { (0..n).map(|i| if i % 2 == 0 { Val::Float(0.5 + i as f64) } else { Val::Int(i as i32 + 2) }).collect() };
            if let Some(Ok(e)) = step!(acc, "parse_val::<i32,f64>", "parse", text, exmex::parse_val::<i32, f64>(text)) {
                acc.nontrivial += 1;
                let vals = mk(e.var_names().len());
                diff_every_variable(&e, &vals, "FlatExVal", text, acc);
                if let Some(Ok(d)) = step!(acc, "FlatExVal", "to_deepex", text, e.clone().to_deepex()) {
                    diff_every_variable(&d, &vals, "FlatExVal -> DeepEx", text, acc);
                }
            }
            if let Some(Ok(e)) = step!(acc, "FlatExVal::parse_wo_compile", "parse", text, VF::parse_wo_compile(text)) {
                let vals = mk(e.var_names().len());
                diff_every_variable(&e, &vals, "FlatExVal::parse_wo_compile", text, acc);
            }
            if let Some(Ok(d)) = step!(acc, "DeepEx::<Val>::parse", "parse", text, VDeep::parse(text)) {
                let vals = mk(d.var_names().len());
                diff_every_variable(&d, &vals, "DeepEx::<Val>::parse", text, acc);
                if let Some(Ok(f)) = step!(acc, "DeepEx::<Val>::parse", "from_deepex", text, VF::from_deepex(d.clone())) {
                    diff_every_variable(&f, &vals, "DeepEx::<Val> -> FlatExVal", text, acc);
                }
            }
        } else {
            let mk = |n: usize| -> Vec<f64> { (0..n).map(|i| 0.5 + i as f64).collect() };
            if let Some(Ok(e)) = step!(acc, "FlatEx::<f64>::parse", "parse", text, FlatEx::<f64>::parse(text)) {
                acc.nontrivial += 1;
                let vals = mk(e.var_names().len());
                diff_every_variable(&e, &vals, "FlatEx::<f64>", text, acc);
                if let Some(Ok(d)) = step!(acc, "FlatEx::<f64>", "to_deepex", text, e.clone().to_deepex()) {
                    diff_every_variable(&d, &vals, "FlatEx::<f64> -> DeepEx", text, acc);
                }
            }
            if let Some(Ok(e)) = step!(acc, "FlatEx::<f64>::parse_wo_compile", "parse", text, FlatEx::<f64>::parse_wo_compile(text)) {
                let vals = mk(e.var_names().len());
                diff_every_variable(&e, &vals, "FlatEx::<f64>::parse_wo_compile", text, acc);
            }
            if let Some(Ok(d)) = step!(acc, "DeepEx::<f64>::parse", "parse", text, DeepEx::<f64>::parse(text)) {
                let vals = mk(d.var_names().len());
                diff_every_variable(&d, &vals, "DeepEx::<f64>::parse", text, acc);
                if let Some(Ok(f)) = step!(acc, "DeepEx::<f64>::parse", "from_deepex", text, FlatEx::<f64>::from_deepex(d.clone())) {
                    diff_every_variable(&f, &vals, "DeepEx::<f64> -> FlatEx", text, acc);
                }
            }
            if let Some(Ok(d)) = step!(acc, "DeepEx::<f32>::parse", "parse", text, DeepEx::<f32>::parse(text)) {
                let vals: Vec<f32> = (0..d.var_names().len()).map(|i| 0.5 + i as f32).collect();
                diff_every_variable(&d, &vals, "DeepEx::<f32>::parse", text, acc);
            }
        }
        if idx % 37 == 0 {
            acc.sample(json!({"family": "differentiate-every-variable", "text": text}));
        }
    }
    fn describe(&self, idx: u64) -> String {
        format!("{:?}", self.texts[idx as usize])
    }
}

// ---------------------------------------------------------------------------------------------

/// every unary operator of the value table on boundary integers / floats, and the integer
/// operators on boundary pairs, as literals (folded at parse time) and through a variable, for
/// 32- and 64-bit integers; small chunks with a short watchdog so that a call that does not
/// return is reported as a hang
pub struct ValBoundary {
    pub cases: Vec<(bool, String, Option<String>)>,
}
const BOUNDARY_LITS: [&str; 22] = [
    "0", "1", "2", "3", "12", "13", "20", "21", "31", "32", "63", "64", "170", "171", "65536", "2147483647", "2147483648", "4294967296", "4611686018427387903", "9223372036854775807", "2.5", "1e300",
];
impl ValBoundary {
    pub fn new(th: bool) -> ValBoundary {
        let mut cases = Vec::new();
        let ops = ValOpsFactory::<i64, f64>::make();
        let mut uns: Vec<String> = ops.iter().filter(|o| o.has_unary()).map(|o| o.repr().to_string()).collect();
        uns.sort();
        let bins = ["^", "<<", ">>", "*", "+", "-", "/", "%", "//"];
        for wide in [false, true] {
            for u in &uns {
                for l in BOUNDARY_LITS {
                    for neg in [false, true] {
                        let lit = if neg { format!("(-{l})") } else { l.to_string() };
                        cases.push((wide, format!("{u}({lit})"), None));
                        cases.push((wide, format!("{u}(x)"), Some(lit.clone())));
                        if neg && l.ends_with('7') {
                            // the smallest integer
                            cases.push((wide, format!("{u}(-{l}-1)"), None));
                            cases.push((wide, format!("{u}(x)"), Some(format!("-{l}-1"))));
                        }
                    }
                }
            }
            let lits: &[&str] = if th { &BOUNDARY_LITS } else { &["0", "1", "2", "31", "32", "63", "64", "2147483647", "9223372036854775807", "2.5"] };
            for b in bins {
                for l1 in lits {
                    for l2 in lits {
                        cases.push((wide, format!("{l1} {b} {l2}"), None));
                        cases.push((wide, format!("(-{l1}) {b} {l2}"), None));
                        cases.push((wide, format!("{l1} {b} (-{l2})"), None));
                    }
                }
            }
        }
        ValBoundary { cases }
    }
}
fn run_boundary<I>(text: &str, at: &Option<String>, acc: &mut Acc, entry: &str)
where
    I: exmex::DataType + num::PrimInt + num::Signed + std::str::FromStr,
    <I as std::str::FromStr>::Err: std::fmt::Debug,
{
    acc.evaluations += 1;
    acc.states += 1;
    acc.nontrivial += 1;
    let parsed = step!(acc, entry, "parse", text, exmex::parse_val::<I, f64>(text));
    if let (Some(Ok(e)), Some(at)) = (parsed, at) {
        // the operand arrives through a variable
        if let Some(Ok(v)) = step!(acc, entry, "parse", at, exmex::parse_val::<I, f64>(at).and_then(|a| a.eval(&[]))) {
            step!(acc, entry, "eval", text, e.eval(&[v]).is_ok());
        }
    }
}
impl Family for ValBoundary {
    fn name(&self) -> String {
        "val boundary operands (i32 and i64), literal and through a variable".into()
    }
    fn total(&self) -> u64 {
        self.cases.len() as u64
    }
    fn run_case(&self, idx: u64, acc: &mut Acc) {
        let (wide, text, at) = &self.cases[idx as usize];
        if *wide {
            run_boundary::<i64>(text, at, acc, "parse_val::<i64,f64>")
        } else {
            run_boundary::<i32>(text, at, acc, "parse_val::<i32,f64>")
        }
    }
    fn describe(&self, idx: u64) -> String {
        let (wide, text, at) = &self.cases[idx as usize];
        format!("parse_val::<{},f64>({text:?}){}", if *wide { "i64" } else { "i32" }, at.as_ref().map(|a| format!(" evaluated at x = {a}")).unwrap_or_default())
    }
    fn crash_signature(&self, idx: u64) -> String {
        let (wide, text, _) = &self.cases[idx as usize];
        let op: String = text.chars().take_while(|c| *c != '(' && *c != ' ').collect();
        format!("val:{}:{op}", if *wide { "i64" } else { "i32" })
    }
    fn chunk_hint(&self) -> Option<u64> {
        Some(256)
    }
    fn watchdogs(&self) -> (u64, u64) {
        (20, 8)
    }
}

fn sv(v: &[&str]) -> Vec<String> {
    v.iter().map(|s| s.to_string()).collect()
}

pub fn families(tier: Tier) -> Vec<Box<dyn Family>> {
    let th = tier.thorough();
    let f64_tokens = sv(&["(", ")", ",", "{", "}", "{y}", "x", "1", ".", "+", "-", "*", "max", "sin", "PI", "§", "\u{1}", "e", "="]);
    let val_tokens = sv(&["(", ")", ",", "1", "2.5", "true", "x", "[1,2]", "-", "%", "==", "if", "else", "to_int", "fact", ".", "<<", "2147483647", "^", "/", "="]);
    let mut v: Vec<Box<dyn Family>> = Vec::new();
    let lf = if th { 6 } else { 5 };
    v.push(Box::new(Strings { name: format!("f64 token strings <= {lf}, blank separated"), val: false, tokens: f64_tokens.clone(), sep: " ", space: StringSpace::new(f64_tokens.len(), lf) }));
    v.push(Box::new(Strings { name: format!("f64 token strings <= {}, concatenated", lf - 1), val: false, tokens: f64_tokens.clone(), sep: "", space: StringSpace::new(f64_tokens.len(), lf - 1) }));
    let lv = if th { 5 } else { 4 };
    v.push(Box::new(Strings { name: format!("val token strings <= {lv}, blank separated"), val: true, tokens: val_tokens.clone(), sep: " ", space: StringSpace::new(val_tokens.len(), lv) }));
    v.push(Box::new(Strings { name: format!("val token strings <= {}, concatenated", lv - 1), val: true, tokens: val_tokens.clone(), sep: "", space: StringSpace::new(val_tokens.len(), lv - 1) }));
    // long and multi-byte tokens
    let odd_tokens = sv(&["(", ")", ",", "x", "+", "sin", "abcdefghijklmnopqrstuvwxyz_0123456789", "123456789012345678901234567890.5", "\u{1F44D}", "{\u{1F44D} x}", "\u{3c9}", "1e5", "  ", "\t", "\u{391}\u{3b2}", "max", "\u{b2}", "\u{bd}", "\u{ff13}", "\u{663}", "1.\u{bd}"]);
    let lo = if th { 5 } else { 4 };
    v.push(Box::new(Strings { name: format!("f64 long/multi-byte token strings <= {lo}, blank separated"), val: false, tokens: odd_tokens.clone(), sep: " ", space: StringSpace::new(odd_tokens.len(), lo) }));
    v.push(Box::new(Strings { name: format!("f64 long/multi-byte token strings <= {lo}, concatenated"), val: false, tokens: odd_tokens.clone(), sep: "", space: StringSpace::new(odd_tokens.len(), lo) }));
    v.push(Box::new(Strings { name: format!("val long/multi-byte token strings <= {}, concatenated", lo - 1), val: true, tokens: odd_tokens.clone(), sep: "", space: StringSpace::new(odd_tokens.len(), lo - 1) }));
    // edits of well-formed texts
    let f64_bases: Vec<Vec<String>> = [
        "x", "sin ( x )", "- x", "x + 1", "max ( x , 1 )", "x * ( y - 2 )", "sin ( x + 1 ) * 2", "- ( x ^ 2 ) / y", "max ( 1 , max ( x , y ) )", "x + 1 + 2 * y - 3", "{y} * x / ( 1 - x )",
        "sin cos x", "( ( x ) )", "2 * 3 * x * 4", "x ^ y ^ 2", "atan2 ( x , y ) + PI",
    ]
    .iter()
    .map(|s| s.split(' ').map(|t| t.to_string()).collect())
    .collect();
    let edit_alpha = sv(&["(", ")", ",", "x", "1", "+", "-", "*", "max", "sin", "{", "}", "§", "."]);
    v.push(Box::new(Edits { name: "f64 single-token edits".into(), val: false, bases: f64_bases.clone(), alphabet: edit_alpha.clone(), double: false }));
    let dbl_bases = if th { f64_bases.clone() } else { f64_bases[..8].to_vec() };
    v.push(Box::new(Edits { name: "f64 double-token edits".into(), val: false, bases: dbl_bases, alphabet: if th { edit_alpha.clone() } else { edit_alpha[..10].to_vec() }, double: true }));
    let val_bases: Vec<Vec<String>> = ["x", "1 if x > 2 else 3", "to_int ( x ) % 2", "- x + 1", "[1,2] . 1", "x == 2 && true", "fact ( 3 ) << 2", "max ( x , 2.5 )"].iter().map(|s| s.split(' ').map(|t| t.to_string()).collect()).collect();
    let val_alpha = sv(&["(", ")", ",", "x", "1", "2.5", "-", "%", "if", "else", "to_int", "==", ".", "[1,2]"]);
    v.push(Box::new(Edits { name: "val single-token edits".into(), val: true, bases: val_bases.clone(), alphabet: val_alpha.clone(), double: false }));
    if th {
        v.push(Box::new(Edits { name: "val double-token edits".into(), val: true, bases: val_bases[..5].to_vec(), alphabet: val_alpha, double: true }));
    }
    // quick: every depth up to 12, then every 4th (and the last ones); thorough: every depth
    let depths: Vec<usize> = (1..=100).filter(|d| th || *d <= 12 || d % 4 == 0 || *d >= 99).collect();
    v.push(Box::new(Deep { val: false, depths: depths.clone() }));
    v.push(Box::new(Deep { val: true, depths }));
    v.push(Box::new(ValBoundary::new(th)));
    v.push(Box::new(DiffAll::new(false, th)));
    v.push(Box::new(DiffAll::new(true, th)));
    v
}

pub fn replay_text(case: &serde_json::Value) -> i32 {
    install_panic_hook();
    let text = case["text"].as_str().unwrap_or("");
    let mut acc = Acc::default();
    run_f64_text(text, &mut acc, ST_ALL);
    run_val_text(text, &mut acc, ST_ALL);
    for v in &acc.violations {
        println!("{}", v.what);
    }
    if acc.violations.is_empty() {
        println!("no panic on {text:?}");
        0
    } else {
        1
    }
}

pub fn run(tier: Tier) -> i32 {
    let mut rep = Report::new("C06", tier);
    rep.rule = "all token strings up to the length bound over alphabets covering every token class (blank-separated and concatenated), all single and double token edits of well-formed texts, deterministic families with nesting depth 1..100 and up to 1000 tokens; families of texts with an operator inside a nested group over some of the variables, differentiated with respect to every variable (strict, relaxed modes, second order, mixed) in every form; every parsing entry point (flat, uncompiled, deep, eval_str, value-typed, statement lines, serde) and, on success, the follow-up calls; executed in journaled worker subprocesses; distinct = texts; non-trivial = texts some parser accepts".into();
    rep.assumptions = vec!["panics are caught in-process; aborts, stack overflows and hangs are attributed by bisection and confirmed in a fresh process; worker main threads run with the default 8 MiB stack".into()];
    crate::sweep::parent("C06", tier, families, &mut rep);
    crate::derived::run_derived(&mut rep, "C06", crate::derived::Focus::Crash, tier.thorough());
    rep.finish()
}
