//! C07 - malformed expressions are reported as errors, never evaluated.
use crate::common::*;
use crate::enumr::*;
use crate::langs::*;
use crate::report::*;
use crate::spec::{self, Renderer, SpecResult, Tok, Tree, ALT};
use crate::strsweep::*;
use crate::sym::*;
use serde_json::json;

const ILLEGAL: [&str; 6] = ["\\", "\"", "'", ";", "§", "\t"];

fn judge_text(lang: &Lang, text: &str, kind: &str, acc: &mut Acc) {
    acc.evaluations += 1;
    match spec::read(text, &lang.table, lang.lk) {
        SpecResult::MustReject(class) => {
            acc.states += 1;
            acc.nontrivial += 1;
            acc.count(&format!("must_reject[{class}]"), 1);
            for (pname, p) in &lang.parsers {
                acc.transitions += 1;
                let bad = match p(text) {
                    Ok(false) => None,
                    Ok(true) => Some("accepted".to_string()),
                    Err(panic) => Some(format!("panicked: {}", panic_site(&panic))),
                };
                if let Some(b) = bad {
                    acc.violate(Violation {
                        signature: format!("{}:{pname}:{kind}:{class}:{}", lang.name, b.split(':').next().unwrap_or("")),
                        what: format!("{pname} {b} the malformed text {text:?} (damage: {kind}; class: {class})"),
                        case: json!({"engine": "c07", "lang": lang.name, "table": lang.table.describe(), "text": text}),
                    });
                }
            }
        }
        SpecResult::Ok(_) => acc.count("damage_yields_another_well_formed_text(skipped)", 1),
        SpecResult::Unconstrained(why) => acc.count(&format!("outside_the_five_classes[{why}](skipped)"), 1),
    }
}

fn is_operand(tok: &str, lang: &Lang) -> bool {
    matches!(spec::lex(tok, &lang.table, lang.lk).as_deref(), Ok([Tok::Lit(_)]) | Ok([Tok::Var(_)]) | Ok([Tok::Const(_)]))
}

/// every single-point damage of the five listed kinds
fn damages(toks: &[String], lang: &Lang, r: &Renderer, out: &mut Vec<(&'static str, String)>) {
    let n = toks.len();
    let join = |v: &[String], out: &mut Vec<(&'static str, String)>, kind: &'static str| {
        out.push((kind, r.join(v, 1)));
        let tight = r.join(v, 0);
        if tight != out.last().unwrap().1 {
            out.push((kind, tight));
        }
    };
    for i in 0..n {
        if toks[i] == "(" || toks[i] == ")" {
            let mut v = toks.to_vec();
            v.remove(i);
            join(&v, out, "delete-paren");
        }
    }
    for g in 0..=n {
        for p in ["(", ")"] {
            let mut v = toks.to_vec();
            v.insert(g, p.to_string());
            join(&v, out, "insert-paren");
        }
    }
    for o in lang.table.ops.iter().filter(|o| o.bin.is_some()) {
        let mut v = toks.to_vec();
        v.push(o.name.to_string());
        join(&v, out, "append-binary-operator");
    }
    let extra_operands: &[&str] = match lang.lk {
        spec::LitKind::Sym => &["7", "w", "{w w}"],
        _ => &["7", "2.5", "w", "{w w}"],
    };
    for i in 0..n {
        if is_operand(&toks[i], lang) {
            for e in extra_operands {
                for at in [i, i + 1] {
                    let mut v = toks.to_vec();
                    v.insert(at, e.to_string());
                    // keep two tokens: always blank-separated
                    out.push(("extra-operand-beside-operand", v.join(" ")));
                }
            }
        }
    }
    for text in [r.join(toks, 0), r.join(toks, 1)] {
        let mut in_brace = false;
        let mut positions = vec![];
        for (i, c) in text.char_indices() {
            if !in_brace {
                positions.push(i);
            }
            if c == '{' {
                in_brace = true;
            } else if c == '}' {
                in_brace = false;
            }
        }
        positions.push(text.len());
        for p in positions {
            // inside an array literal blanks (also a tab) belong to the literal
            let in_array = text[..p].rfind('[').map(|o| !text[o..p].contains(']')).unwrap_or(false);
            for ill in ILLEGAL {
                if in_array && ill == "\t" {
                    continue;
                }
                let mut s = text.clone();
                s.insert_str(p, ill);
                out.push(("insert-illegal-character", s));
            }
        }
    }
}

fn call_subsets(r: &Renderer, tree: &Tree) -> Vec<Vec<u8>> {
    let nodes = tree.subtrees();
    let callable: Vec<usize> = nodes.iter().enumerate().filter(|(_, n)| matches!(n, Tree::Bin(..)) && r.alt_available(n)).map(|(i, _)| i).collect();
    let mut out = Vec::new();
    for mask in 0u32..(1 << callable.len()) {
        let mut cv = vec![0u8; nodes.len()];
        for (b, &i) in callable.iter().enumerate() {
            if mask & (1 << b) != 0 {
                cv[i] = ALT;
            }
        }
        out.push(cv);
    }
    out
}

fn damage_campaign(lang: &Lang, alphabet: Alphabet, sizes: &[(usize, usize)], rep: &mut Report, name: &str) {
    let space = TreeSpace::new(alphabet, sizes);
    let t0 = std::time::Instant::now();
    let accs = par_ranges(
        space.total,
        64,
        || {
            install_panic_hook();
            set_table(&lang.table);
        },
        |st, en, acc| {
            let r = Renderer { t: &lang.table, lk: lang.lk };
            let mut dmg = Vec::new();
            for idx in st..en {
                let tree = space.get(idx);
                for cv in call_subsets(&r, &tree) {
                    let toks = r.tokens(&tree, &cv);
                    // the undamaged text must be well-formed for the reference (model self-check)
                    let text = r.join(&toks, 0);
                    match spec::read(&text, &lang.table, lang.lk) {
                        SpecResult::Ok(t2) if t2 == tree => {}
                        other => {
                            println!("MACHINERY-FAILURE property=C07 reference does not read back {text:?}: {other:?}");
                            std::process::exit(2);
                        }
                    }
                    dmg.clear();
                    damages(&toks, lang, &r, &mut dmg);
                    for (kind, d) in &dmg {
                        judge_text(lang, d, kind, acc);
                    }
                    if idx % 4099 == 0 && cv.iter().all(|c| *c == 0) {
                        acc.sample(json!({"lang": lang.name, "well_formed": text, "damaged_examples": dmg.iter().step_by(dmg.len() / 5 + 1).map(|d| json!({"kind": d.0, "text": d.1})).collect::<Vec<_>>()}));
                    }
                }
            }
        },
    );
    for a in accs {
        rep.absorb(a);
    }
    rep.bounds.push(format!("{name}: every single-point damage of every rendering (all call-form subsets) of {} trees (sizes {:?}) in language {}: complete in {:.1}s", space.total, sizes, lang.name, t0.elapsed().as_secs_f64()));
}

/// malformed texts whose counts pass 127 / 255 / 511 (/ 65535): parenthesis surplus, operand
/// surplus and operator surplus that are multiples of 256 away from a well-formed count, damage
/// behind the 255th token
fn large_count_family(langs: &[&Lang], thorough: bool, rep: &mut Report) {
    let mut texts: Vec<(&'static str, String)> = Vec::new();
    let mut ns = vec![1usize, 127, 128, 129, 254, 255, 256, 257, 258, 511, 512, 513];
    if thorough {
        ns.extend([1023, 1024, 1025, 65535, 65536, 65537]);
    }
    for &n in &ns {
        let mut ms = vec![n + 1, n + 256, n + 255, n + 257];
        if n > 0 {
            ms.extend([n - 1, 0]);
        }
        for d in [255usize, 256, 257] {
            if n >= d {
                ms.push(n - d);
            }
        }
        ms.sort();
        ms.dedup();
        if n <= 1025 {
            for m in ms {
                if m != n {
                    texts.push(("parenthesis-surplus", format!("{}x{}", "(".repeat(n), ")".repeat(m))));
                    texts.push(("parenthesis-surplus", format!("{}x+1{}*2", "(".repeat(n), ")".repeat(m))));
                }
            }
        }
        // n operands
        let chain = |k: usize| (0..k).map(|_| "x").collect::<Vec<_>>().join("+");
        if n >= 2 {
            texts.push(("operator-at-the-end", format!("{}+", chain(n))));
            texts.push(("operand-surplus", format!("{} x", chain(n))));
            texts.push(("operand-surplus", format!("x {}", chain(n))));
            texts.push(("operand-surplus", format!("{} x {}", chain(n / 2), chain(n - n / 2))));
            texts.push(("illegal-character", format!("{}+\u{a7}", chain(n))));
            texts.push(("illegal-character", format!("{}\u{a7}+x", chain(n))));
            // operands exceed operators by n (0 operators), by 1 + n, operators exceed operands
            texts.push(("operand-surplus", vec!["x"; n].join(" ")));
            texts.push(("operand-surplus", format!("{} {}", chain(3), vec!["x"; n].join(" "))));
            texts.push(("operator-surplus", format!("x{}x", "*".repeat(n))));
        }
    }
    let langs: Vec<&Lang> = langs.to_vec();
    let total = (texts.len() * langs.len()) as u64;
    let accs = par_ranges(total, 4, install_panic_hook, |st, en, acc| {
        for i in st..en {
            let lang = langs[(i as usize) % langs.len()];
            let (kind, text) = &texts[(i as usize) / langs.len()];
            set_table(&lang.table);
            judge_text(lang, text, kind, acc);
        }
    });
    for a in accs {
        rep.absorb(a);
    }
    rep.bounds.push(format!("large-count family: {} malformed texts (parenthesis / operand / operator surplus and damage positions around 127, 255, 511{} and multiples of 256 away from a well-formed count) x {} languages: complete", texts.len(), if thorough { ", 1023, 65535" } else { "" }, langs.len()));
}

fn ops(t: &Table, names: &[&str]) -> Vec<u16> {
    names.iter().map(|n| t.find(n).unwrap_or_else(|| panic!("no op {n}"))).collect()
}

pub fn run(tier: Tier) -> i32 {
    let mut rep = Report::new("C07", tier);
    rep.rule = "every well-formed text (trees x call-form subsets) x every single-point damage (delete/insert parenthesis at every place, append every binary operator, extra operand on either side of every operand, six illegal characters at every character position outside braces), classified by the reference lexer/classifier; texts in one of the five classes named by the property must be Err for every parser; plus empty/blank texts and all token strings up to the length bound; distinct_nontrivial = damaged texts the reference puts into one of the five classes".into();
    rep.assumptions = vec!["a damage that yields another well-formed text, or a text outside the five classes, is skipped and counted - the check does not demand more than the property states".into()];
    let thorough = tier.thorough();
    // symbolic language, universal table
    let ut = universal_table(PRIO_MAPS[0]);
    let ls = lang_sym(ut.clone());
    let a_sym = Alphabet { leaves: vec![Tree::lit(1), Tree::var("x"), Tree::var("a b"), Tree::Const(15)], uns: vec![5, 12], bins: vec![0, 2, 4, 5, 9, 10, 11] };
    damage_campaign(&ls, a_sym.clone(), &if thorough { sizes_upto(3, 2) } else { sizes_upto(3, 1) }, &mut rep, "sym-universal");
    if thorough {
        let a4 = Alphabet { leaves: vec![Tree::lit(1), Tree::var("x")], uns: vec![5, 12], bins: vec![0, 5, 9, 11] };
        damage_campaign(&ls, a4, &[(4, 0), (4, 1)], &mut rep, "sym-universal-n4");
    }
    // call table (alphabetic binary operators, comma rewrite)
    let ct = crate::c08::call_table([0, 1, 2]);
    let lc = lang_sym(ct.clone());
    let a_call = Alphabet { leaves: vec![Tree::lit(1), Tree::var("x")], uns: vec![5, 9], bins: vec![0, 2, 3, 5, 6] };
    damage_campaign(&lc, a_call, &if thorough { vec![(2, 0), (2, 1), (3, 0), (3, 1), (4, 0)] } else { vec![(2, 0), (2, 1), (3, 0)] }, &mut rep, "sym-call-table");
    // default float table
    let lf = lang_f64();
    let ft = lf.table.clone();
    let a_f = Alphabet {
        leaves: vec![Tree::Lit("1".into()), Tree::Lit("2.5".into()), Tree::var("x"), Tree::Const(ft.find("PI").unwrap())],
        uns: ops(&ft, &["-", "sin"]),
        bins: ops(&ft, &["+", "-", "*", "^", "max", "atan2"]),
    };
    damage_campaign(&lf, a_f, &if thorough { sizes_upto(3, 1) } else { vec![(1, 0), (1, 1), (2, 0), (2, 1), (3, 0)] }, &mut rep, "f64-default");
    // value table
    let lv = lang_val();
    let vt = lv.table.clone();
    let a_v = Alphabet {
        leaves: vec![Tree::Lit("1".into()), Tree::Lit("2.5".into()), Tree::Lit("true".into()), Tree::var("x"), Tree::Lit("[1.5,2]".into())],
        uns: ops(&vt, &["-", "to_int"]),
        bins: ops(&vt, &["+", "-", "==", "<=", "&&", "if", "else", "min", "%"]),
    };
    damage_campaign(&lv, a_v, &if thorough { vec![(1, 0), (1, 1), (2, 0), (2, 1), (3, 0), (3, 1)] } else { vec![(1, 0), (1, 1), (2, 0), (2, 1), (3, 0)] }, &mut rep, "val-default");
    // empty and blank texts
    {
        let mut acc = Acc::default();
        for lang in [&ls, &lf, &lv] {
            set_table(&lang.table);
            for t in ["", " ", "  ", "     "] {
                judge_text(lang, t, "empty-or-blank", &mut acc);
            }
        }
        rep.absorb(acc);
    }
    large_count_family(&[&ls, &lf, &lv], thorough, &mut rep);
    // all token strings, symbolic language
    let l = if thorough { 6 } else { 5 };
    let mut toks = std_tokens();
    toks.push("§");
    let sw = Sweep { name: "strings-sym", tokens: toks, max_len: l, table: ut.clone(), sep: " " };
    sweep_strings(&sw, &mut rep, &|text, _i, acc| {
        acc.evaluations -= 1;
        judge_text(&ls, text, "token-string", acc)
    });
    // macro tokens around the call form: operators, parentheses (also in pairs), argument
    // lists - so that seven symbols reach texts like `cm 2 ) * ( ( 1 , 2 )`
    let sw = Sweep { name: "strings-sym-call-macros", tokens: vec!["cm", "*", "-", "2", "x", "(", ")", "( (", ") )", "1 , 2", ","], max_len: if thorough { 8 } else { 7 }, table: ut.clone(), sep: " " };
    sweep_strings(&sw, &mut rep, &|text, _i, acc| {
        acc.evaluations -= 1;
        judge_text(&ls, text, "token-string", acc)
    });
    let sw = Sweep { name: "strings-f64", tokens: vec!["(", ")", ",", "1", ".5", "x", "+", "-", "*", "max", "sin", "PI", "§"], max_len: if thorough { 6 } else { 5 }, table: lf.table.clone(), sep: " " };
    sweep_strings(&sw, &mut rep, &|text, _i, acc| {
        acc.evaluations -= 1;
        judge_text(&lf, text, "token-string", acc)
    });
    let sw = Sweep { name: "strings-val", tokens: vec!["(", ")", ",", "1", "true", "x", "-", "==", "if", "else", "to_int", "§"], max_len: if thorough { 6 } else { 4 }, table: lv.table.clone(), sep: " " };
    sweep_strings(&sw, &mut rep, &|text, _i, acc| {
        acc.evaluations -= 1;
        judge_text(&lv, text, "token-string", acc)
    });
    rep.finish()
}

pub fn replay(case: &serde_json::Value) -> i32 {
    install_panic_hook();
    let text = case["text"].as_str().unwrap_or("");
    let lang = match case["lang"].as_str().unwrap_or("") {
        "f64" => lang_f64(),
        "val" => lang_val(),
        _ => lang_sym(Table::from_json(&case["table"])),
    };
    set_table(&lang.table);
    let r = spec::read(text, &lang.table, lang.lk);
    println!("text {text:?}: reference says {r:?}");
    let mut rc = 0;
    for (n, p) in &lang.parsers {
        let o = p(text);
        println!("  {n}: {}", match &o {
            Ok(true) => "accepted".to_string(),
            Ok(false) => "rejected".to_string(),
            Err(p) => format!("PANIC {p}"),
        });
        if matches!(r, SpecResult::MustReject(_)) && !matches!(o, Ok(false)) {
            rc = 1;
        }
    }
    rc
}
