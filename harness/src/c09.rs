//! C09 - differentiation bookkeeping: variables, indices, order and repetition.
use crate::common::*;
use crate::enumr::*;
use crate::hist::*;
use crate::numty::*;
use crate::report::*;
use crate::spec::{self, LitKind, Renderer, SpecResult, Tree};
use crate::sym::Table;
use exmex::prelude::*;
use exmex::{DeepEx, DiffDataType, Differentiate, ExResult, Express, MissingOpMode};
use serde_json::{json, Value};
use std::fmt::Debug;
use std::sync::Arc;

/// flat or deep expression over T with the default operator names
#[derive(Clone, Debug, PartialEq)]
pub enum Ex<T: DiffDataType + Num>
where
    <T as std::str::FromStr>::Err: Debug,
{
    F(FlatEx<T, NumOps<T>>),
    D(DeepEx<'static, T, NumOps<T>>),
}
macro_rules! both {
    ($s:expr, $e:ident => $body:expr) => {
        match $s {
            Ex::F($e) => $body,
            Ex::D($e) => $body,
        }
    };
}
impl<T: DiffDataType + Num> Ex<T>
where
    <T as std::str::FromStr>::Err: Debug,
{
    pub fn parse(text: &'static str, deep: bool) -> ExResult<Self> {
        Ok(if deep { Ex::D(DeepEx::parse(text)?) } else { Ex::F(FlatEx::parse(text)?) })
    }
    /// 0 = FlatEx::parse, 1 = DeepEx::parse, 2 = FlatEx::parse_wo_compile
    pub fn parse_form(text: &'static str, form: u8) -> ExResult<Self> {
        Ok(match form {
            1 => Ex::D(DeepEx::parse(text)?),
            2 => Ex::F(FlatEx::parse_wo_compile(text)?),
            _ => Ex::F(FlatEx::parse(text)?),
        })
    }
    pub fn partial(&self, i: usize) -> ExResult<Self> {
        Ok(match self {
            Ex::F(e) => Ex::F(e.clone().partial(i)?),
            Ex::D(e) => Ex::D(e.clone().partial(i)?),
        })
    }
    pub fn partial_nth(&self, i: usize, n: usize, relaxed: bool) -> ExResult<Self> {
        Ok(match (self, relaxed) {
            (Ex::F(e), false) => Ex::F(e.clone().partial_nth(i, n)?),
            (Ex::D(e), false) => Ex::D(e.clone().partial_nth(i, n)?),
            (Ex::F(e), true) => Ex::F(e.clone().partial_nth_relaxed(i, n, MissingOpMode::Error)?),
            (Ex::D(e), true) => Ex::D(e.clone().partial_nth_relaxed(i, n, MissingOpMode::Error)?),
        })
    }
    pub fn partial_iter(&self, seq: &[usize], relaxed: bool) -> ExResult<Self> {
        Ok(match (self, relaxed) {
            (Ex::F(e), false) => Ex::F(e.clone().partial_iter(seq.iter().copied())?),
            (Ex::D(e), false) => Ex::D(e.clone().partial_iter(seq.iter().copied())?),
            (Ex::F(e), true) => Ex::F(e.clone().partial_iter_relaxed(seq.iter().copied(), MissingOpMode::Error)?),
            (Ex::D(e), true) => Ex::D(e.clone().partial_iter_relaxed(seq.iter().copied(), MissingOpMode::Error)?),
        })
    }
    /// the same index sequence handed over by iterators without an exact size hint
    /// (0 = filter, 1 = from_fn, 2 = take_while, 3 = flat_map)
    pub fn partial_iter_hint(&self, seq: &[usize], kind: u8) -> ExResult<Self> {
        fn go<T: DiffDataType + Num, I: Iterator<Item = usize> + Clone>(e: &Ex<T>, it: I) -> ExResult<Ex<T>>
        where
            <T as std::str::FromStr>::Err: Debug,
        {
            Ok(match e {
                Ex::F(e) => Ex::F(e.clone().partial_iter(it)?),
                Ex::D(e) => Ex::D(e.clone().partial_iter(it)?),
            })
        }
        let v = seq.to_vec();
        match kind {
            0 => go(self, v.into_iter().filter(|_| true)),
            1 => {
                let mut k = 0;
                go(
                    self,
                    std::iter::from_fn(move || {
                        k += 1;
                        v.get(k - 1).copied()
                    }),
                )
            }
            2 => go(self, v.into_iter().take_while(|_| true)),
            _ => go(self, v.into_iter().flat_map(|i| std::iter::once(i))),
        }
    }
    pub fn convert(&self) -> ExResult<Self> {
        Ok(match self {
            Ex::F(e) => Ex::D(e.clone().to_deepex()?),
            Ex::D(e) => Ex::F(FlatEx::from_deepex(e.clone())?),
        })
    }
    pub fn is_deep(&self) -> bool {
        matches!(self, Ex::D(_))
    }
    /// the overloaded unary minus of deep expressions
    pub fn neg_overloaded(&self) -> Option<ExResult<Self>> {
        match self {
            Ex::D(e) => Some((-e.clone()).map(Ex::D)),
            Ex::F(_) => None,
        }
    }
    /// named helper methods of deep expressions (cos(), exp(), sin(), ln())
    pub fn helper(&self, name: &str) -> Option<ExResult<Self>> {
        match self {
            Ex::D(e) => {
                let e = e.clone();
                Some(
                    match name {
                        "cos" => e.cos(),
                        "exp" => e.exp(),
                        "sin" => e.sin(),
                        _ => e.ln(),
                    }
                    .map(Ex::D),
                )
            }
            Ex::F(_) => None,
        }
    }
    pub fn un(&self, name: &'static str) -> ExResult<Self> {
        Ok(match self {
            Ex::F(e) => Ex::F(e.clone().operate_unary(name)?),
            Ex::D(e) => Ex::D(e.clone().operate_unary(name)?),
        })
    }
    /// self `name` other (both of the same form)
    pub fn bin(&self, other: &Self, name: &'static str) -> ExResult<Self> {
        Ok(match (self, other) {
            (Ex::F(a), Ex::F(b)) => Ex::F(a.clone().operate_binary(b.clone(), name)?),
            (Ex::D(a), Ex::D(b)) => Ex::D(a.clone().operate_binary(b.clone(), name)?),
            _ => panic!("harness: operands of different forms"),
        })
    }
    /// substitute `with` (same form) for the variable `var`; every other variable is kept
    pub fn subs_one(&self, var: Option<&str>, with: &Self) -> ExResult<Self> {
        Ok(match (self, with) {
            (Ex::F(a), Ex::F(b)) => Ex::F(a.clone().subs(&mut |n: &str| if Some(n) == var { Some(b.clone()) } else { None })?),
            (Ex::D(a), Ex::D(b)) => Ex::D(a.clone().subs(&mut |n: &str| if Some(n) == var { Some(b.clone()) } else { None })?),
            _ => panic!("harness: operands of different forms"),
        })
    }
    pub fn var_names(&self) -> Vec<String> {
        both!(self, e => e.var_names().to_vec())
    }
    pub fn eval(&self, v: &[T]) -> ExResult<T> {
        both!(self, e => e.eval(v))
    }
    pub fn dump(&self) -> String {
        both!(self, e => format!("{e:?}"))
    }
    pub fn text(&self) -> String {
        both!(self, e => e.unparse().to_string())
    }
    /// (binary_reprs, unary_reprs, operator_reprs)
    pub fn reprs(&self) -> (Vec<String>, Vec<String>, Vec<String>) {
        both!(self, e => (e.binary_reprs().to_vec(), e.unary_reprs().to_vec(), e.operator_reprs().to_vec()))
    }
}

/// numeric agreement of two expressions of the same variables
pub trait Cmp: DiffDataType + Num
where
    <Self as std::str::FromStr>::Err: Debug,
{
    fn points(n: usize) -> Vec<Vec<Self>>;
    /// Some(true/false) if the point is conclusive
    fn agree(a: &Self, b: &Self) -> Option<bool>;
}
impl Cmp for Q {
    fn points(n: usize) -> Vec<Vec<Q>> {
        let g: [(i64, i64); 6] = [(-2, 1), (1, 3), (3, 2), (5, 1), (-7, 3), (2, 5)];
        let mut out = Vec::new();
        if n <= 1 {
            for a in g {
                out.push(vec![Q::frac(a.0, a.1); n]);
            }
        } else {
            for (i, a) in g.iter().enumerate() {
                for b in &g[(i % 2)..] {
                    let mut p = vec![Q::frac(a.0, a.1), Q::frac(b.0, b.1)];
                    while p.len() < n {
                        p.push(Q::frac(3, 7));
                    }
                    out.push(p);
                }
            }
        }
        out
    }
    fn agree(a: &Q, b: &Q) -> Option<bool> {
        if a.defined() && b.defined() {
            Some(a == b)
        } else {
            None
        }
    }
}
impl Cmp for Fe {
    fn points(n: usize) -> Vec<Vec<Fe>> {
        crate::c05::POINTS.iter().map(|(x, y)| [*x, *y, 0.77, 1.31].iter().take(n).map(|v| Fe::exact(*v)).collect()).collect()
    }
    fn agree(a: &Fe, b: &Fe) -> Option<bool> {
        if !(a.defined() && b.defined()) {
            return None;
        }
        let err = a.e + b.e;
        let mag = a.v.abs().max(b.v.abs());
        if !(err <= 1e-6 * mag || err <= 1e-9) {
            return None;
        }
        Some((a.v - b.v).abs() <= 16.0 * err + 1e-12 * mag + 1e-300)
    }
}

/// Ok(number of conclusive points) or Err(description of the disagreement)
pub fn same_function<T: Cmp>(a: &Ex<T>, b: &Ex<T>) -> Result<usize, String>
where
    <T as std::str::FromStr>::Err: Debug,
{
    if a.var_names() != b.var_names() {
        return Err(format!("variable lists differ: {:?} vs {:?}", a.var_names(), b.var_names()));
    }
    if a == b {
        return Ok(usize::MAX);
    }
    let n = a.var_names().len();
    let mut concl = 0;
    for p in T::points(n) {
        let (x, y) = match (a.eval(&p), b.eval(&p)) {
            (Ok(x), Ok(y)) => (x, y),
            (ea, eb) => return Err(format!("evaluation failed: {:?} / {:?}", ea.err().map(|e| e.msg().to_string()), eb.err().map(|e| e.msg().to_string()))),
        };
        match T::agree(&x, &y) {
            Some(true) => concl += 1,
            Some(false) => return Err(format!("values differ at {p:?}: {x:?} vs {y:?} ({:?} vs {:?})", a.text(), b.text())),
            None => {}
        }
    }
    Ok(concl)
}

#[derive(Clone, Debug, Hash, PartialEq, Eq)]
pub enum Act {
    Base(usize, bool),
    D(usize),
}

#[derive(Clone)]
pub struct Bookkeeping {
    pub texts: Arc<Vec<(&'static str, usize, bool)>>, // text, number of variables, rational fragment
    pub max_len: usize,
}

fn check_state<T: Cmp>(text: &'static str, deep: bool, seq: &[usize], out: &mut Outcome)
where
    <T as std::str::FromStr>::Err: Debug,
{
    let mut bad = |sig: &str, what: String| out.bad.push((format!("{}:{sig}", if deep { "deep" } else { "flat" }), format!("{text:?} {} d{seq:?}: {what}", if deep { "deep" } else { "flat" })));
    let e0 = match Ex::<T>::parse(text, deep) {
        Ok(e) => e,
        Err(e) => {
            bad("parse", format!("base expression rejected: {}", e.msg()));
            out.terminal = true;
            return;
        }
    };
    let names = e0.var_names();
    let n = names.len();
    let mut cur = e0.clone();
    for (pos, &i) in seq.iter().enumerate() {
        let c0 = from_calls();
        let r = cur.partial(i);
        out.steps += 1;
        if i >= n {
            out.terminal = true;
            out.key = format!("ERR after {:?}", &seq[..pos]);
            match r {
                Ok(_) => bad("index-not-rejected", format!("index {i} >= {n} variables was accepted by partial")),
                Err(_) => {
                    if from_calls() != c0 {
                        bad("work-before-index-error", format!("partial({i}) failed for its index but only after {} number constructions", from_calls() - c0));
                    }
                }
            }
            return;
        }
        match r {
            Ok(e) => cur = e,
            Err(_) => {
                out.terminal = true;
                out.key = format!("REFUSED after {:?}", &seq[..pos]);
                return;
            }
        }
    }
    out.key = format!("{}|{}", cur.dump(), deep);
    // (1) variable list of the antiderivative, same slice evaluates both
    if cur.var_names() != names {
        bad("variable-list", format!("derivative lists {:?}, antiderivative {:?}", cur.var_names(), names));
        return;
    }
    let p0 = &T::points(n)[0];
    out.steps += 1;
    if let Err(e) = cur.eval(p0) {
        bad("eval-with-same-slice", format!("derivative cannot be evaluated with the antiderivative's slice: {}", e.msg()));
    }
    // (3) iterated = sequential, relaxed twins, n-th = n singles, order zero = identity
    for relaxed in [false, true] {
        out.steps += 1;
        match e0.partial_iter(seq, relaxed) {
            Ok(it) => {
                if let Err(m) = same_function(&it, &cur) {
                    bad(if relaxed { "partial_iter_relaxed-vs-sequential" } else { "partial_iter-vs-sequential" }, m);
                }
            }
            Err(e) => bad("partial_iter-failed", format!("partial_iter{}({seq:?}) failed although the sequential partials succeed: {}", if relaxed { "_relaxed" } else { "" }, e.msg())),
        }
        if !relaxed {
            // the index sequence may come from any cloneable iterator, also one without exact size hint
            for kind in 0..4u8 {
                out.steps += 1;
                let what = ["filter", "from_fn", "take_while", "flat_map"][kind as usize];
                match e0.partial_iter_hint(seq, kind) {
                    Ok(it) => {
                        if let Err(m) = same_function(&it, &cur) {
                            bad("partial_iter(inexact-size-hint)-vs-sequential", format!("indices {seq:?} from a {what} iterator: {m}"));
                        }
                    }
                    Err(e) => bad("partial_iter-failed", format!("partial_iter({seq:?} from a {what} iterator) failed although the sequential partials succeed: {}", e.msg())),
                }
            }
        }
        if !seq.is_empty() && seq.iter().all(|i| *i == seq[0]) {
            out.steps += 1;
            match e0.partial_nth(seq[0], seq.len(), relaxed) {
                Ok(nth) => {
                    if let Err(m) = same_function(&nth, &cur) {
                        bad("partial_nth-vs-repeated-partial", m);
                    }
                }
                Err(e) => bad("partial_nth-failed", format!("partial_nth({}, {}) failed: {}", seq[0], seq.len(), e.msg())),
            }
        }
        if seq.is_empty() {
            for i in 0..n {
                out.steps += 1;
                match e0.partial_nth(i, 0, relaxed) {
                    Ok(id) => {
                        if let Err(m) = same_function(&id, &e0) {
                            bad("order-zero-not-identity", m);
                        }
                    }
                    Err(e) => bad("order-zero-failed", format!("partial_nth({i}, 0) failed: {}", e.msg())),
                }
            }
        }
    }
    // mixed partials agree in either order
    if seq.len() >= 2 {
        let k = seq.len();
        if seq[k - 1] != seq[k - 2] {
            let mut sw = seq.to_vec();
            sw.swap(k - 1, k - 2);
            out.steps += 1;
            if let Ok(alt) = e0.partial_iter(&sw, false) {
                if let Err(m) = same_function(&alt, &cur) {
                    bad("mixed-partials-differ", format!("order {seq:?} vs {sw:?}: {m}"));
                }
            }
        }
    }
    // (2) out-of-range indices are errors before any work, for repeated and iterated forms
    // just beyond the list, around the machine-word sizes, aliases of the valid indices modulo
    // 64 / 2^32, and the largest values
    let mut js: Vec<usize> = vec![n, n + 1, 63, 64, 65, 127, 128, 129, 255, 256, 257, 65535, 65536, 1usize << 32, (1usize << 32) + 1, usize::MAX, usize::MAX - 1];
    // (for expressions with many variables: the first, a middle and the last valid index)
    let valid: Vec<usize> = if n <= 4 { (0..n).collect() } else { vec![0, n / 2, n - 1] };
    for &i in &valid {
        js.extend([64 + i, 128 + i, 256 + i, 65536 + i, (1usize << 32) + i]);
        js.extend((usize::MAX - 63).checked_add(i));
    }
    if seq.len() > 1 {
        // deeper histories: the two indices just beyond the list
        js = vec![n, n + 1];
    }
    js.retain(|j| *j >= n);
    js.sort();
    js.dedup();
    let near = |j: usize| j <= n + 1;
    for j in js {
        for k in 1..=2usize {
            let c0 = from_calls();
            out.steps += 1;
            match cur.partial_nth(j, k, false) {
                Ok(_) => bad("index-not-rejected", format!("partial_nth({j}, {k}) accepted an index >= {n}")),
                Err(_) => {
                    if from_calls() != c0 {
                        bad("work-before-index-error", format!("partial_nth({j}, {k}) did work before failing"));
                    }
                }
            }
        }
        let mut bad_seqs = vec![vec![j]];
        for &i in &valid {
            bad_seqs.extend([vec![i, j], vec![j, i], vec![i, i, j]]);
            if near(j) {
                bad_seqs.push(vec![i, j, i]);
            }
        }
        for bad_seq in bad_seqs {
            let c0 = from_calls();
            out.steps += 1;
            match e0.partial_iter(&bad_seq, false) {
                Ok(_) => bad("index-not-rejected", format!("partial_iter({bad_seq:?}) accepted an index >= {n}")),
                Err(_) => {
                    if from_calls() != c0 {
                        bad("work-before-index-error", format!("partial_iter({bad_seq:?}) differentiated before rejecting the invalid index ({} number constructions)", from_calls() - c0));
                    }
                }
            }
            // (all four iterator kinds for the indices just beyond the list, one kind for the far ones)
            for kind in 0..if near(j) { 4u8 } else { 1 } {
                out.steps += 1;
                if e0.partial_iter_hint(&bad_seq, kind).is_ok() {
                    bad("index-not-rejected", format!("partial_iter({bad_seq:?} from a {} iterator) accepted an index >= {n}", ["filter", "from_fn", "take_while", "flat_map"][kind as usize]));
                }
            }
            out.steps += 1;
            if e0.partial_iter(&bad_seq, true).is_ok() {
                bad("index-not-rejected", format!("partial_iter_relaxed({bad_seq:?}) accepted an index >= {n}"));
            }
        }
    }
}

impl Hist for Bookkeeping {
    type Act = Act;
    fn roots(&self) -> Vec<Vec<Act>> {
        let mut v = Vec::new();
        for i in 0..self.texts.len() {
            v.push(vec![Act::Base(i, false)]);
            v.push(vec![Act::Base(i, true)]);
        }
        v
    }
    fn enabled(&self, hist: &[Act], out: &mut Vec<Act>) {
        let Act::Base(i, _) = hist[0] else { return };
        let n = self.texts[i].1;
        for j in 0..=n + 1 {
            out.push(Act::D(j));
        }
    }
    fn max_len(&self) -> usize {
        self.max_len
    }
    fn run(&self, hist: &[Act]) -> Outcome {
        let Act::Base(i, deep) = hist[0] else { unreachable!() };
        let (text, _, rational) = self.texts[i];
        let seq: Vec<usize> = hist[1..].iter().map(|a| if let Act::D(j) = a { *j } else { 0 }).collect();
        let mut out = Outcome { key: String::new(), bad: vec![], terminal: false, steps: 0 };
        if rational {
            check_state::<Q>(text, deep, &seq, &mut out);
        } else {
            check_state::<Fe>(text, deep, &seq, &mut out);
        }
        out.key = format!("{i}:{}", out.key);
        out
    }
    fn describe(&self, hist: &[Act]) -> Value {
        let Act::Base(i, deep) = hist[0] else { unreachable!() };
        json!({"text": self.texts[i].0, "form": if deep { "deep" } else { "flat" }, "indices": hist[1..].iter().map(|a| if let Act::D(j) = a { *j } else { 0 }).collect::<Vec<_>>()})
    }
}

fn rational_fragment(tree: &Tree, t: &Table) -> bool {
    match tree {
        Tree::Lit(_) | Tree::Var(_) => true,
        Tree::Const(_) => false,
        Tree::Un(k, a) => matches!(t.ops[*k as usize].name, "+" | "-") && rational_fragment(a, t),
        Tree::Bin(k, a, b) => matches!(t.ops[*k as usize].name, "+" | "-" | "*" | "/" | "^") && rational_fragment(a, t) && rational_fragment(b, t),
    }
}

pub fn texts_of(al: Alphabet, sizes: &[(usize, usize)], t: &Table) -> Vec<(&'static str, usize, bool)> {
    let space = TreeSpace::new(al, sizes);
    let r = Renderer { t, lk: LitKind::Number };
    let mut v = Vec::new();
    for i in 0..space.total {
        let tree = space.get(i);
        let text = r.render_default(&tree);
        match spec::read(&text, t, LitKind::Number) {
            SpecResult::Ok(t2) if t2 == tree => {}
            o => {
                println!("MACHINERY-FAILURE property=C09 reference does not read back {text:?}: {o:?}");
                std::process::exit(2);
            }
        }
        v.push((crate::sym::intern(&text), tree.vars().len(), rational_fragment(&tree, t)));
    }
    v
}

pub fn replay(case: &Value) -> i32 {
    install_panic_hook();
    let h = &case["history"];
    let text = crate::sym::intern(h["text"].as_str().unwrap_or("x"));
    let deep = h["form"].as_str() == Some("deep");
    let seq: Vec<usize> = h["indices"].as_array().map(|a| a.iter().map(|x| x.as_u64().unwrap_or(0) as usize).collect()).unwrap_or_default();
    let t = num_table();
    let rational = matches!(spec::read(text, &t, LitKind::Number), SpecResult::Ok(tr) if rational_fragment(&tr, &t));
    let mut out = Outcome { key: String::new(), bad: vec![], terminal: false, steps: 0 };
    if rational {
        check_state::<Q>(text, deep, &seq, &mut out);
    } else {
        check_state::<Fe>(text, deep, &seq, &mut out);
    }
    for (s, w) in &out.bad {
        println!("{s}: {w}");
    }
    if out.bad.is_empty() {
        println!("bookkeeping holds for {text:?} {seq:?}");
        0
    } else {
        1
    }
}

pub fn run(tier: Tier) -> i32 {
    let mut rep = Report::new("C09", tier);
    rep.rule = "explicit-state exploration: state = (base expression, form, index history), actions = partial(i) for every i in 0..n_vars+1 (two out-of-range indices; in the states reached by at most one step also out-of-range indices around 64, 128, 256, 2^16, 2^32 and usize::MAX incl. the aliases of the valid indices modulo 64, 256, 2^16 and 2^32, alone and after / before valid ones), histories of length 0..4; in every state: variable list unchanged, same slice evaluates, partial_iter / partial_iter_relaxed of the history = sequential partials, partial_nth = repeated partial, order 0 = identity, mixed partials equal in either order, out-of-range indices rejected by partial / partial_nth / partial_iter before any number is constructed; equalities are structural or decided exactly over Q (rational fragment) / by rounding bounds (else); distinct = unique structural dumps; non-trivial = history with at least one partial".into();
    rep.assumptions = vec!["'work' is observed through a counter on the data type's From<u8>/From<f32> conversions, which only differentiation and the neutral-element shortcuts request".into()];
    install_panic_hook();
    let t = num_table();
    let f = |names: &[&str], unary: bool| -> Vec<u16> { names.iter().map(|n| t.ops.iter().position(|o| o.name == *n && if unary { o.unary } else { o.bin.is_some() }).unwrap() as u16).collect() };
    let lv = |names: &[&str]| -> Vec<Tree> { names.iter().map(|n| if n.chars().next().unwrap().is_ascii_digit() { Tree::Lit(n.to_string()) } else { Tree::var(n) }).collect() };
    let mut texts = texts_of(Alphabet { leaves: lv(&["x", "y", "2", "3"]), uns: f(&["-", "sin", "ln", "sqrt", "abs"], true), bins: f(&["^", "*", "/", "+", "-"], false) }, &[(1, 0), (1, 1), (2, 0), (2, 1)], &t);
    if tier.thorough() {
        texts.extend(texts_of(Alphabet { leaves: lv(&["x", "y", "z", "2"]), uns: vec![], bins: f(&["^", "*", "/", "+", "-"], false) }, &[(3, 0)], &t));
        texts.extend(texts_of(Alphabet { leaves: lv(&["x", "y", "2"]), uns: f(&["-", "sin", "ln"], true), bins: f(&["^", "*", "/", "+"], false) }, &[(3, 1)], &t));
    } else {
        texts.extend(texts_of(Alphabet { leaves: lv(&["x", "y", "2"]), uns: vec![], bins: f(&["^", "*", "/", "-"], false) }, &[(3, 0)], &t));
    }
    let n_texts = texts.len();
    // (thorough: more base expressions at the same history length; a fifth step multiplied the
    // run time by four without reaching new code)
    let m = Bookkeeping { texts: Arc::new(texts), max_len: 4 };
    let st = explore(m, &mut rep, "c09", &format!("{n_texts} base expressions x flat/deep"));
    rep.count("unique_states", st.unique as u64);
    // more variables than the inline capacity of the variable lists (16), names shared between
    // the operands of a product / sum
    let many: Vec<(&'static str, usize, bool)> = vec![
        ("a*s+(b*c*d*f*g*h*i*j*k*l*m*n*o*p*q*r*s)", 18, true),
        ("(a+b+c+d+f+g+h+i+s)*(j+k+l+m+n+o+p+q+r+s)", 18, true),
        ("a+b*c+d+f*g+h+i+j*k+l+m+n*o+p+q+r*a+s+t", 19, true),
        ("s*a*s+b+c+d+f+g+h+i+j+k+l+m+n+o+p+(q-r*s)", 18, true),
        // names whose byte order differs from their alphabetical order (upper before lower case,
        // digits, underscore, Greek)
        ("V/a", 2, true),
        ("a*B+c*Z", 4, true),
        ("_x*X1+x10*x9/{ a}", 5, true),
        ("β*sin(B)+Α/b", 4, false),
    ];
    let m = Bookkeeping { texts: Arc::new(many), max_len: if tier.thorough() { 3 } else { 2 } };
    explore(m, &mut rep, "c09", "4 base expressions with 18..19 variables and 4 with names whose byte order differs from the alphabetical one x flat/deep");
    // (a base expression with more than 256 variables was tried: differentiating a sum of 258
    // operands costs the library minutes per state - see finding R2 - so the byte boundary is covered
    // by the out-of-range aliases 256 + i and 65536 + i of the valid indices instead)
    crate::derived::run_derived(&mut rep, "C09", crate::derived::Focus::Diff, tier.thorough());
    rep.finish()
}
