//! Evidence, violations, replay files and known findings.
use serde_json::{json, Map, Value};
use std::collections::{BTreeMap, BTreeSet};
use std::hash::{Hash, Hasher};
use std::time::Instant;

pub fn verif_dir() -> String {
    std::env::var("VERIF_OUT").unwrap_or_else(|_| "/verif".to_string())
}

#[derive(Clone, Copy, PartialEq, Eq, Debug)]
pub enum Tier {
    Quick,
    Thorough,
}
impl Tier {
    pub fn name(self) -> &'static str {
        match self {
            Tier::Quick => "quick",
            Tier::Thorough => "thorough",
        }
    }
    pub fn thorough(self) -> bool {
        self == Tier::Thorough
    }
}

#[derive(Clone, Debug)]
pub struct Violation {
    /// names the specific thing that fails (shrunk canonical witness / call site)
    pub signature: String,
    pub what: String,
    /// everything `verif replay` needs
    pub case: Value,
}

/// replay by re-running a small fixed check and looking up this signature (see `finish`)
pub static RERUN_SIGNATURE: std::sync::OnceLock<String> = std::sync::OnceLock::new();

pub struct Report {
    pub prop: &'static str,
    pub tier: Tier,
    pub seed: u64,
    start: Instant,
    pub evaluations: u64,
    pub states: u64,
    pub transitions: u64,
    pub nontrivial: u64,
    pub rule: String,
    pub samples: Vec<Value>,
    pub counters: BTreeMap<String, u64>,
    pub violations: Vec<Violation>,
    pub exhaustive: bool,
    pub caps: Vec<String>,
    pub bounds: Vec<String>,
    pub assumptions: Vec<String>,
    pub notes: Vec<String>,
    pub extra: Map<String, Value>,
}

pub fn seed_from_env() -> u64 {
    std::env::var("VERIF_SEED").ok().and_then(|s| s.parse::<i64>().ok()).map(|x| x as u64).unwrap_or(0)
}

impl Report {
    pub fn new(prop: &'static str, tier: Tier) -> Self {
        Report {
            prop,
            tier,
            seed: seed_from_env(),
            start: Instant::now(),
            evaluations: 0,
            states: 0,
            transitions: 0,
            nontrivial: 0,
            rule: String::new(),
            samples: vec![],
            counters: BTreeMap::new(),
            violations: vec![],
            exhaustive: true,
            caps: vec![],
            bounds: vec![],
            assumptions: vec![],
            notes: vec![],
            extra: Map::new(),
        }
    }
    pub fn count(&mut self, key: &str, n: u64) {
        *self.counters.entry(key.to_string()).or_insert(0) += n;
    }
    pub fn merge_counters(&mut self, other: &BTreeMap<String, u64>) {
        for (k, v) in other {
            *self.counters.entry(k.clone()).or_insert(0) += v;
        }
    }
    pub fn sample(&mut self, v: Value) {
        if self.samples.len() < 24 {
            self.samples.push(v);
        }
    }
    pub fn cap(&mut self, s: impl Into<String>) {
        self.exhaustive = false;
        self.caps.push(s.into());
    }
    pub fn elapsed(&self) -> f64 {
        self.start.elapsed().as_secs_f64()
    }

    /// write evidence + replays, print verdict lines, return the process exit code
    pub fn finish(mut self) -> i32 {
        if let Some(sig) = RERUN_SIGNATURE.get() {
            // `verif replay` of a case that carries no data of its own (C19: the catalogue is
            // fixed and small): the quick check was re-run, nothing is written, the recorded
            // signature is looked up among the results
            let hits: Vec<&Violation> = self.violations.iter().filter(|v| &v.signature == sig).collect();
            return match hits.first() {
                Some(v) => {
                    println!("  BAD {} ({} cases) e.g. {}", v.signature, hits.len(), v.what);
                    1
                }
                None => {
                    println!("  => no case with the signature {sig:?}: the recorded deviation does not occur");
                    0
                }
            };
        }
        if crate::hist::replaying() {
            // nothing is judged and no evidence is written while searching for a recorded history
            return 2;
        }
        let known = load_known(self.prop);
        // group violations by signature
        let mut by_sig: BTreeMap<String, Vec<Violation>> = BTreeMap::new();
        for v in std::mem::take(&mut self.violations) {
            by_sig.entry(v.signature.clone()).or_default().push(v);
        }
        let mut unlisted = 0usize;
        let mut known_hit: BTreeSet<String> = BTreeSet::new();
        let mut viol_lines = Vec::new();
        let mut viol_summ = Vec::new();
        for (sig, vs) in &by_sig {
            if let Some(k) = known.iter().find(|k| k.status == "open" && &k.signature == sig) {
                known_hit.insert(k.signature.clone());
                viol_summ.push(json!({"signature": sig, "cases": vs.len(), "known_finding": true}));
                continue;
            }
            unlisted += 1;
            let path = write_replay(self.prop, sig, &vs[0]);
            viol_lines.push(format!("VIOLATION property={} replay={}", self.prop, path));
            if unlisted <= 40 {
                eprintln!("  [{}] {} ({} cases) e.g. {}", self.prop, sig, vs.len(), vs[0].what);
            }
            viol_summ.push(json!({"signature": sig, "cases": vs.len(), "example": vs[0].what, "replay": path}));
        }
        for k in known.iter().filter(|k| k.status == "open") {
            if known_hit.contains(&k.signature) {
                println!("KNOWN-FINDING: property={} {}", self.prop, k.what);
            } else {
                eprintln!("note: open known finding not reproduced in this run: {}", k.signature);
            }
        }
        let wall = self.elapsed();
        let mut cov = Map::new();
        cov.insert("states".into(), json!(self.states.max(1)));
        cov.insert("transitions".into(), json!(self.transitions.max(1)));
        cov.insert("traces_validated_against_impl".into(), json!(self.transitions));
        cov.insert("evaluations".into(), json!(self.evaluations.max(1)));
        cov.insert("distinct_nontrivial".into(), json!(self.nontrivial));
        cov.insert("rule".into(), json!(self.rule));
        if self.samples.is_empty() {
            self.samples.push(json!("(no sample recorded)"));
        }
        cov.insert("samples".into(), Value::Array(self.samples.clone()));
        cov.insert("exhaustive".into(), json!(self.exhaustive && self.caps.is_empty()));
        cov.insert("bounds_completed".into(), json!(self.bounds));
        cov.insert("caps_hit".into(), json!(self.caps));
        cov.insert("non_vacuity".into(), json!(self.counters));
        cov.insert("violation_groups".into(), Value::Array(viol_summ));
        cov.insert("known_findings_reproduced".into(), json!(known_hit.iter().collect::<Vec<_>>()));
        cov.insert("notes".into(), json!(self.notes));
        cov.insert(
            "explanation".into(),
            json!("every enumerated case is executed on the real exmex code built from /repo's working tree and compared, step by step, with the harness' reference model; traces_validated_against_impl = transitions because the model runs in lock-step with the implementation"),
        );
        for (k, v) in self.extra.iter() {
            cov.insert(k.clone(), v.clone());
        }
        let ev = json!({
            "property_id": self.prop,
            "tier": self.tier.name(),
            "seed": self.seed as i64,
            "level": "model_checking",
            "coverage": Value::Object(cov),
            "assumptions": self.assumptions,
            "wall_s": wall,
            "violations": unlisted,
        });
        let dir = format!("{}/evidence", verif_dir());
        let _ = std::fs::create_dir_all(&dir);
        let path = format!("{dir}/{}.json", self.prop);
        std::fs::write(&path, serde_json::to_string_pretty(&ev).unwrap()).expect("write evidence");
        println!(
            "{} {}: evaluations={} states={} transitions={} nontrivial={} unlisted_violation_groups={} wall={:.1}s exhaustive={}",
            self.prop,
            self.tier.name(),
            self.evaluations,
            self.states,
            self.transitions,
            self.nontrivial,
            unlisted,
            wall,
            self.exhaustive && self.caps.is_empty()
        );
        for (k, v) in &self.counters {
            println!("  {k} = {v}");
        }
        for l in viol_lines.iter().take(40) {
            println!("{l}");
        }
        if viol_lines.len() > 40 {
            println!("({} more violation groups; all of them are in the evidence file)", viol_lines.len() - 40);
        }
        if unlisted > 0 {
            1
        } else {
            0
        }
    }
}

pub fn hash_str(s: &str) -> String {
    let mut h = std::collections::hash_map::DefaultHasher::new();
    s.hash(&mut h);
    format!("{:016x}", h.finish())
}

fn write_replay(prop: &str, sig: &str, v: &Violation) -> String {
    let dir = format!("{}/replays/{prop}", verif_dir());
    let _ = std::fs::create_dir_all(&dir);
    let path = format!("{dir}/{}.json", hash_str(sig));
    let body = json!({"property": prop, "signature": sig, "what": v.what, "case": v.case});
    let _ = std::fs::write(&path, serde_json::to_string_pretty(&body).unwrap());
    path
}

#[derive(Clone, Debug)]
pub struct Known {
    pub property: String,
    pub status: String,
    pub signature: String,
    pub what: String,
}

pub fn load_known(prop: &str) -> Vec<Known> {
    let path = "/verif/known_findings.jsonl".to_string();
    let Ok(text) = std::fs::read_to_string(path) else { return vec![] };
    text.lines()
        .filter(|l| !l.trim().is_empty() && !l.trim_start().starts_with('#'))
        .filter_map(|l| serde_json::from_str::<Value>(l).ok())
        .filter(|v| v["property"].as_str() == Some(prop))
        .map(|v| Known {
            property: prop.to_string(),
            status: v["status"].as_str().unwrap_or("").to_string(),
            signature: v["signature"].as_str().unwrap_or("").to_string(),
            what: v["what"].as_str().unwrap_or("").to_string(),
        })
        .collect()
}

pub fn machinery_failure(prop: &str, msg: &str) -> ! {
    println!("MACHINERY-FAILURE property={prop} {msg}");
    std::process::exit(2)
}

/// per-worker accumulator merged into the report
#[derive(Default)]
pub struct Acc {
    pub evaluations: u64,
    pub states: u64,
    pub transitions: u64,
    pub nontrivial: u64,
    pub counters: BTreeMap<String, u64>,
    pub violations: Vec<Violation>,
    pub samples: Vec<Value>,
    pub dropped_violations: u64,
}
pub const MAX_VIOL_PER_WORKER: usize = 4000;
impl Acc {
    pub fn count(&mut self, k: &str, n: u64) {
        if let Some(v) = self.counters.get_mut(k) {
            *v += n;
        } else {
            self.counters.insert(k.to_string(), n);
        }
    }
    pub fn violate(&mut self, v: Violation) {
        if self.violations.len() < MAX_VIOL_PER_WORKER {
            self.violations.push(v);
        } else {
            self.dropped_violations += 1;
        }
    }
    pub fn sample(&mut self, v: Value) {
        if self.samples.len() < 3 {
            self.samples.push(v);
        }
    }
}
impl Report {
    pub fn absorb(&mut self, a: Acc) {
        self.evaluations += a.evaluations;
        self.states += a.states;
        self.transitions += a.transitions;
        self.nontrivial += a.nontrivial;
        self.merge_counters(&a.counters);
        self.violations.extend(a.violations);
        for s in a.samples {
            self.sample(s);
        }
        if a.dropped_violations > 0 {
            self.count("violations_beyond_per_worker_cap(unshrunk,counted_as_unlisted)", a.dropped_violations);
            self.cap(format!("{} violating cases beyond the per-worker cap were not recorded individually", a.dropped_violations));
        }
    }
}
