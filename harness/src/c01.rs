//! C01 - evaluation follows the documented operator semantics.
use crate::common::*;
use crate::enumr::*;
use crate::report::*;
use crate::spec::{self, SpecResult, Tree};
use crate::sym::*;
use crate::treecheck::*;
use serde_json::json;

fn alpha(bins: &[u16], uns: &[u16], leaves: Vec<Tree>) -> Alphabet {
    Alphabet { leaves, uns: uns.to_vec(), bins: bins.to_vec() }
}

pub fn campaigns(tier: Tier, pipes: &[Pipe]) -> Vec<Campaign> {
    let mut v = Vec::new();
    let t0 = universal_table(PRIO_MAPS[0]);
    let mk = |name: &str, table: &std::sync::Arc<Table>, al: Alphabet, sizes: Vec<(usize, usize)>, max_dev: usize, blanks: Vec<u8>| Campaign {
        name: name.to_string(),
        table: table.clone(),
        alphabet: al,
        sizes,
        max_dev,
        max_extra: 2,
        blanks,
        pipes: pipes.to_vec(),
        filter: None,
        choice_gen: None,
    };
    // (a) tiny trees, every rendering (all deviations the tree admits), all blank styles
    v.push(mk("tiny-all-renderings", &t0, alpha(&UT_BINS_ALL, &UT_UNS_ALL, leaves_with_const()), vec![(1, 0), (1, 1), (1, 2), (2, 0), (2, 1)], 99, vec![0, 1, 2]));
    if tier.thorough() {
        v.push(mk("small-all-renderings", &t0, alpha(&UT_BINS_SMALL, &UT_UNS_SMALL, leaves_std()), vec![(2, 2), (3, 0)], 99, vec![0, 1]));
        v.push(mk("n3-all-ops-dev2", &t0, alpha(&UT_BINS_ALL, &UT_UNS_ALL, leaves_with_const()), vec![(3, 0), (3, 1)], 2, vec![0, 1]));
        v.push(mk("n3u2-dev1", &t0, alpha(&UT_BINS_ALL, &[5, 12, 14], leaves_std()), vec![(3, 2), (2, 2), (2, 3)], 1, vec![0]));
        v.push(mk("n4-dev1", &t0, alpha(&UT_BINS_ALL, &UT_UNS_SMALL, leaves_std()), vec![(4, 0)], 1, vec![0]));
        v.push(mk("n4u1-small-dev1", &t0, alpha(&UT_BINS_SMALL, &UT_UNS_SMALL, leaves_std()), vec![(4, 1)], 1, vec![0]));
        v.push(mk("n4u2-small-dev0", &t0, alpha(&UT_BINS_SMALL, &UT_UNS_SMALL, vec![Tree::lit(1), Tree::lit(2), Tree::var("x")]), vec![(4, 2)], 0, vec![0]));
        v.push(mk("n5-small-dev0", &t0, alpha(&UT_BINS_SMALL, &UT_UNS_SMALL, vec![Tree::lit(1), Tree::lit(2), Tree::var("x")]), vec![(5, 0)], 0, vec![0]));
        v.push(mk("n5u1-tiny-dev0", &t0, alpha(&[0, 2, 4, 5, 8, 10], &[12], vec![Tree::lit(1), Tree::var("x")]), vec![(5, 1)], 0, vec![0]));
        for (i, pm) in PRIO_MAPS.iter().enumerate().skip(1) {
            let t = universal_table(*pm);
            v.push(mk(&format!("priomap{i}-n3"), &t, alpha(&UT_BINS_ALL, &UT_UNS_SMALL, leaves_std()), vec![(2, 1), (3, 0), (3, 1)], 1, vec![0]));
            v.push(mk(&format!("priomap{i}-n4"), &t, alpha(&UT_BINS_SMALL, &[], leaves_std()), vec![(4, 0)], 0, vec![0]));
        }
    } else {
        v.push(mk("n3-dev1", &t0, alpha(&UT_BINS_ALL, &UT_UNS_SMALL, leaves_std()), vec![(2, 2), (3, 0), (3, 1)], 1, vec![0]));
        v.push(mk("n3u2-small-dev0", &t0, alpha(&UT_BINS_SMALL, &UT_UNS_SMALL, leaves_std()), vec![(3, 2)], 0, vec![0]));
        v.push(mk("n4-small-dev0", &t0, alpha(&UT_BINS_SMALL, &[], leaves_std()), vec![(4, 0)], 0, vec![0]));
        let t2 = universal_table(PRIO_MAPS[2]);
        v.push(mk("priomap2-n3", &t2, alpha(&UT_BINS_SMALL, &UT_UNS_SMALL, leaves_std()), vec![(3, 0), (3, 1)], 0, vec![0]));
    }
    v
}

fn vname(i: usize) -> String {
    format!("v{i:03}")
}

/// deterministic large families: texts with up to 257 (thorough 513) operands, all distinct variables
pub fn large_family_texts(tier: Tier) -> Vec<(String, String)> {
    let lens: Vec<usize> = if tier.thorough() {
        vec![17, 33, 63, 64, 65, 66, 127, 128, 129, 130, 191, 192, 193, 194, 200, 255, 256, 257, 258, 513]
    } else {
        vec![33, 64, 65, 66, 129, 193, 257]
    };
    let mut out = Vec::new();
    for &n in &lens {
        let ops_cycle = |ops: &[&str]| -> String {
            let mut s = String::new();
            for i in 0..n {
                if i > 0 {
                    s.push_str(&format!(" {} ", ops[(i - 1) % ops.len()]));
                }
                s.push_str(&vname(i));
            }
            s
        };
        out.push((format!("single-nc-{n}"), ops_cycle(&["/"])));
        out.push((format!("single-c-{n}"), ops_cycle(&["*"])));
        out.push((format!("alt-equal-prio-{n}"), ops_cycle(&["-", "+"])));
        out.push((format!("alt-equal-prio2-{n}"), ops_cycle(&["+", "-", "|", "^"])));
        out.push((format!("cycle-prios-up-{n}"), ops_cycle(&["<", "-", "/"])));
        out.push((format!("cycle-prios-down-{n}"), ops_cycle(&["/", "-", "<"])));
        out.push((format!("cycle-mixed-{n}"), ops_cycle(&["*", "<", "+", "%", ":", "-", "nc"])));
        out.push((format!("unary-over-chain-{n}"), format!("f({})", ops_cycle(&["-", "+"]))));
        out.push((format!("unary-over-chain2-{n}"), format!("-({}) / g({})", ops_cycle(&["*"]), ops_cycle(&["<", "/"]))));
        // ascending via nesting: ((((v0 < v1) < v2) ...
        if n <= 130 {
            let mut s = vname(0);
            for i in 1..n {
                s = format!("({s} / {})", vname(i));
            }
            out.push((format!("nest-left-{n}"), s));
            let mut s = vname(n - 1);
            for i in (0..n - 1).rev() {
                s = format!("({} - {s})", vname(i));
            }
            out.push((format!("nest-right-{n}"), s));
        }
    }
    // literal pairs at every position of a 66-chain, commutative and non-commutative operator
    let n = 66;
    for op in ["*", "+", "/", "-"] {
        for pos in 0..n - 1 {
            if !tier.thorough() && pos % 7 != 0 && pos != 62 && pos != 63 && pos != 64 {
                continue;
            }
            let mut s = String::new();
            for i in 0..n {
                if i > 0 {
                    s.push_str(&format!(" {op} "));
                }
                if i == pos {
                    s.push('1');
                } else if i == pos + 1 {
                    s.push('2');
                } else {
                    s.push_str(&vname(i));
                }
            }
            out.push((format!("literal-pair-{op}-at-{pos}"), s));
        }
    }
    out
}

pub fn run_large_families(rep: &mut Report, pipes: &[Pipe]) {
    let table = universal_table(PRIO_MAPS[0]);
    let fam = large_family_texts(rep.tier);
    let pipes = pipes.to_vec();
    let accs = par_ranges(
        fam.len() as u64,
        1,
        || {
            install_panic_hook();
            set_table(&table);
        },
        |st, en, acc| {
            for i in st..en {
                let (name, text) = &fam[i as usize];
                let tree = match spec::read(text, &table, spec::LitKind::Sym) {
                    SpecResult::Ok(t) => t,
                    other => {
                        println!("MACHINERY-FAILURE family text {name} not well-formed for the reference: {other:?}");
                        std::process::exit(2);
                    }
                };
                acc.states += 1;
                acc.nontrivial += 1;
                acc.evaluations += 1;
                for &p in &pipes {
                    acc.transitions += 1;
                    if let Some((e, o)) = judge(p, &tree, text, &table) {
                        let cut = |s: &str| s.chars().take(300).collect::<String>();
                        acc.violate(Violation {
                            signature: format!("{p:?}:family:{name}"),
                            what: format!("family {name} pipeline {p:?}: expected {} observed {}", cut(&e), cut(&o)),
                            case: json!({"engine": "tree-text", "table": table.describe(), "text": text, "pipe": format!("{p:?}")}),
                        });
                    }
                }
                if i % 37 == 0 {
                    acc.sample(json!({"family": name, "text_prefix": text.chars().take(80).collect::<String>()}));
                }
                acc.count("large_family_texts", 1);
            }
        },
    );
    for a in accs {
        rep.absorb(a);
    }
    rep.bounds.push(format!("large deterministic families: {} texts with 17..257 (thorough ..513) operands, pipes {:?}: complete", fam.len(), pipes));
}

pub fn run(tier: Tier) -> i32 {
    let mut rep = Report::new("C01", tier);
    rep.rule = "all trees of the listed sizes over the universal operator table x all renderings within the deviation bound x blank styles, through FlatEx::parse and parse_wo_compile with the free term algebra as data type; distinct = distinct trees; non-trivial = tree contains at least one operator".into();
    rep.assumptions = vec![
        "the library touches values only through Clone/Default/FromStr/Debug and the operator function pointers, so the symbolic result decides all data types and all variable values".into(),
        "reference lexer/parser/renderer encode the documented rules; they are checked against each other on every enumerated case".into(),
    ];
    let pipes = [Pipe::P, Pipe::W];
    for c in campaigns(tier, &pipes) {
        let raw = run_campaign(&c, &mut rep, "C01", None);
        shrink_and_report(raw, &c.table, &mut rep, &c.name);
    }
    run_large_families(&mut rep, &pipes);
    // the other direction: every token string the reference reads as well-formed (also renderings
    // the tree enumerator never produces) must evaluate to the reference tree
    let table = universal_table(PRIO_MAPS[0]);
    for (name, toks, l) in [("strings-std", crate::strsweep::std_tokens(), if tier.thorough() { 6 } else { 5 }), ("strings-small", crate::strsweep::small_tokens(), if tier.thorough() { 7 } else { 6 })] {
        let sw = crate::strsweep::Sweep { name, tokens: toks, max_len: l, table: table.clone(), sep: " " };
        let tb = table.clone();
        crate::strsweep::sweep_strings(&sw, &mut rep, &|text, _i, acc| {
            if let SpecResult::Ok(tree) = spec::read(text, &tb, spec::LitKind::Sym) {
                acc.states += 1;
                if tree.has_op() {
                    acc.nontrivial += 1;
                }
                acc.count("token_strings_the_reference_reads_as_well_formed", 1);
                for p in [Pipe::P, Pipe::W] {
                    acc.transitions += 1;
                    if let Some((e, o)) = judge(p, &tree, text, &tb) {
                        acc.violate(Violation {
                            signature: format!("{p:?}:string:{}", canon_tree(&tree, &tb)),
                            what: format!("pipeline {p:?} on the token string {text:?}: expected {e} observed {o}"),
                            case: json!({"engine": "tree-text", "table": tb.describe(), "text": text, "pipe": format!("{p:?}")}),
                        });
                    }
                }
            }
        });
    }
    rep.finish()
}
