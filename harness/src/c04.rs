//! C04 - variables are found, ordered and bound exactly as documented.
use crate::common::*;
use crate::enumr::*;
use crate::report::*;
use crate::spec::{self, LitKind, SpecResult, Tree};
use crate::sym::*;
use exmex::prelude::*;
use exmex::{DeepEx, Differentiate, Express};
use serde_json::json;
use std::sync::Arc;

fn table() -> Arc<Table> {
    Table::new(vec![
        OpDesc::bin_un("+", 0, true),  // 0
        OpDesc::bin("*", 1, true),     // 1
        OpDesc::bin_un("-", 0, false), // 2
        OpDesc::bin("^", 2, false),    // 3
        OpDesc::un("sin"),             // 4
        OpDesc::bin("/", 1, false),    // 5
    ])
}

/// tokens chosen to separate orderings: upper/lower case, underscore, digits, Greek, braced
/// names with leading blank / digits / emoji / operator look-alikes, `{a}` = `a`
const UNIVERSE: [&str; 15] = ["B", "a", "_z", "Z1", "β", "Α", "{ b}", "{1}", "{a}", "{x y}", "{👍+👎}", "{sin}", "{+}", "ab", "{}"];

fn check_arity_and_binding(text: &str, tree: &Tree, t: &Table, acc: &mut Acc) {
    let vars = tree.vars();
    let n = vars.len();
    let expect = nf_ac(&tree.eval_sym(&vars, t), t);
    acc.states += 1;
    acc.evaluations += 1;
    if n > 1 {
        acc.nontrivial += 1;
    }
    let r = guard(|| -> Result<(), String> {
        let f = SFlat::parse(text).map_err(|e| format!("flat parse: {}", e.msg()))?;
        let w = SFlat::parse_wo_compile(text).map_err(|e| format!("parse_wo_compile: {}", e.msg()))?;
        let d = SDeep::parse(text).map_err(|e| format!("deep parse: {}", e.msg()))?;
        let df = SFlat::from_deepex(d.clone()).map_err(|e| format!("from_deepex: {}", e.msg()))?;
        for (nm, names) in [("flat", f.var_names()), ("uncompiled", w.var_names()), ("deep", d.var_names()), ("deep->flat", df.var_names())] {
            if names != vars.as_slice() {
                return Err(format!("{nm} var_names {names:?} instead of {vars:?}"));
            }
        }
        for len in 0..=n + 2 {
            let vals = var_syms(len);
            let same = |v: &Sym| nf_ac(v, t) == expect;
            macro_rules! strict {
                ($e:expr, $nm:expr) => {{
                    acc.transitions += 1;
                    match $e {
                        Ok(v) => {
                            if len != n {
                                return Err(format!("{} accepted {len} values for {n} variables", $nm));
                            }
                            if !same(&v) {
                                return Err(format!("{} binds values to the wrong names: {}", $nm, show(&v, t)));
                            }
                        }
                        Err(_) => {
                            if len == n {
                                return Err(format!("{} rejected a slice of the right length", $nm));
                            }
                        }
                    }
                }};
            }
            macro_rules! relaxed {
                ($e:expr, $nm:expr) => {{
                    acc.transitions += 1;
                    match $e {
                        Ok(v) => {
                            if len < n {
                                return Err(format!("{} accepted {len} values for {n} variables", $nm));
                            }
                            if !same(&v) {
                                return Err(format!("{} with surplus values binds wrongly: {}", $nm, show(&v, t)));
                            }
                        }
                        Err(_) => {
                            if len >= n {
                                return Err(format!("{} rejected {len} values for {n} variables", $nm));
                            }
                        }
                    }
                }};
            }
            strict!(f.eval(&vals), "flat eval");
            strict!(w.eval(&vals), "uncompiled eval");
            strict!(d.eval(&vals), "deep eval");
            strict!(df.eval(&vals), "deep->flat eval");
            strict!(f.eval_vec(var_syms(len)), "eval_vec");
            strict!(f.eval_iter(var_syms(len).into_iter()), "eval_iter");
            strict!(df.eval_vec(var_syms(len)), "deep->flat eval_vec");
            relaxed!(f.eval_relaxed(&vals), "flat eval_relaxed");
            relaxed!(d.eval_relaxed(&vals), "deep eval_relaxed");
            relaxed!(df.eval_relaxed(&vals), "deep->flat eval_relaxed");
        }
        Ok(())
    });
    let bad = match r {
        Ok(Ok(())) => None,
        Ok(Err(m)) => Some(m),
        Err(p) => Some(format!("PANIC {}", panic_site(&p))),
    };
    if let Some(m) = bad {
        let kind: String = m.chars().take_while(|c| !c.is_ascii_digit() && *c != '[').take(48).collect();
        acc.violate(Violation { signature: format!("names:{kind}"), what: format!("on {text:?}: {m}"), case: json!({"engine": "c04", "text": text}) });
    }
}

fn read(text: &str, t: &Table) -> Tree {
    match spec::read(text, t, LitKind::Sym) {
        SpecResult::Ok(tr) => tr,
        o => {
            println!("MACHINERY-FAILURE property=C04 {text:?} not well-formed for the reference: {o:?}");
            std::process::exit(2)
        }
    }
}

pub fn replay(case: &serde_json::Value) -> i32 {
    install_panic_hook();
    let t = table();
    set_table(&t);
    let text = case["text"].as_str().unwrap_or("");
    let mut acc = Acc::default();
    if case["kind"].as_str() == Some("triple") {
        overloaded_triple(intern(case["a"].as_str().unwrap_or("a")), intern(case["b"].as_str().unwrap_or("a")), intern(case["c"].as_str().unwrap_or("a")), &t, &mut acc);
    } else if case["kind"].as_str() == Some("derived") {
        derived_pair(case["a"].as_str().unwrap_or(""), case["b"].as_str().unwrap_or(""), &t, &mut acc);
    } else {
        check_arity_and_binding(text, &read(text, &t), &t, &mut acc);
    }
    for v in &acc.violations {
        println!("{}", v.what);
    }
    if acc.violations.is_empty() {
        println!("=> holds");
        0
    } else {
        1
    }
}

fn subst_tree(t: &Tree, name: &str, with: &Tree) -> Tree {
    match t {
        Tree::Var(v) if v == name => with.clone(),
        Tree::Un(k, a) => Tree::un(*k, subst_tree(a, name, with)),
        Tree::Bin(k, a, b) => Tree::bin(*k, subst_tree(a, name, with), subst_tree(b, name, with)),
        x => x.clone(),
    }
}

/// derived expressions list the sorted union of the names involved
fn derived_pair(ta: &str, tb: &str, t: &Table, acc: &mut Acc) {
    let (tra, trb) = (read(ta, t), read(tb, t));
    acc.evaluations += 1;
    acc.states += 1;
    acc.nontrivial += 1;
    let r = guard(|| -> Result<(), String> {
        let cmp = |what: &str, names: &[String], val: Result<Sym, String>, reft: &Tree| -> Result<(), String> {
            let vars = reft.vars();
            if names != vars.as_slice() {
                return Err(format!("{what}: var_names {names:?} instead of the sorted union {vars:?}"));
            }
            let v = val?;
            if nf_ac(&v, t) != nf_ac(&reft.eval_sym(&vars, t), t) {
                return Err(format!("{what}: value {} instead of {}", show(&v, t), show(&reft.eval_sym(&vars, t), t)));
            }
            Ok(())
        };
        // operator application
        for op in ["+", "*", "-"] {
            let k = t.find(op).unwrap();
            let reft = Tree::bin(k, tra.clone(), trb.clone());
            let fa = SFlat::parse(ta).map_err(|e| e.msg().to_string())?;
            let fb = SFlat::parse(tb).map_err(|e| e.msg().to_string())?;
            let fr = fa.operate_binary(fb, op).map_err(|e| format!("flat operate_binary: {}", e.msg()))?;
            acc.transitions += 2;
            cmp(&format!("flat ({ta}) {op} ({tb})"), fr.var_names(), fr.eval(&var_syms(fr.var_names().len())).map_err(|e| e.msg().to_string()), &reft)?;
            let da = SDeep::parse(ta).map_err(|e| e.msg().to_string())?;
            let db = SDeep::parse(tb).map_err(|e| e.msg().to_string())?;
            let dr = da.operate_binary(db, op).map_err(|e| format!("deep operate_binary: {}", e.msg()))?;
            cmp(&format!("deep ({ta}) {op} ({tb})"), dr.var_names(), dr.eval(&var_syms(dr.var_names().len())).map_err(|e| e.msg().to_string()), &reft)?;
        }
        // substitution of every variable of a by b
        for v in tra.vars() {
            let reft = subst_tree(&tra, &v, &trb);
            let fa = SFlat::parse(ta).map_err(|e| e.msg().to_string())?;
            let mut sub = |name: &str| if name == v { Some(SFlat::parse(tb).unwrap()) } else { None };
            let fr = fa.subs(&mut sub).map_err(|e| format!("flat subs: {}", e.msg()))?;
            acc.transitions += 2;
            cmp(&format!("flat ({ta})[{v} := {tb}]"), fr.var_names(), fr.eval(&var_syms(fr.var_names().len())).map_err(|e| e.msg().to_string()), &reft)?;
            let da = SDeep::parse(ta).map_err(|e| e.msg().to_string())?;
            let mut sub = |name: &str| if name == v { Some(SDeep::parse(tb).unwrap()) } else { None };
            let dr = da.subs(&mut sub).map_err(|e| format!("deep subs: {}", e.msg()))?;
            cmp(&format!("deep ({ta})[{v} := {tb}]"), dr.var_names(), dr.eval(&var_syms(dr.var_names().len())).map_err(|e| e.msg().to_string()), &reft)?;
        }
        Ok(())
    });
    let bad = match r {
        Ok(Ok(())) => None,
        Ok(Err(m)) => Some(m),
        Err(p) => Some(format!("PANIC {}", panic_site(&p))),
    };
    if let Some(m) = bad {
        let kind: String = m.split(':').nth(1).unwrap_or("").chars().take_while(|c| *c != '[' && *c != '{').take(40).collect();
        acc.violate(Violation { signature: format!("derived:{}{kind}", m.split(' ').next().unwrap_or("")), what: m, case: json!({"engine": "c04", "kind": "derived", "a": ta, "b": tb}) });
    }
}

/// chains of two overloaded operators on deep expressions (with their neutral-element shortcuts):
/// ((a o1 b) o2 c) lists the sorted union of the names of a, b and c
fn overloaded_triple(ta: &'static str, tb: &'static str, tc: &'static str, t: &Table, acc: &mut Acc) {
    let union = {
        let mut v: Vec<String> = Vec::new();
        for s in [ta, tb, tc] {
            for n in read(s, t).vars() {
                if !v.contains(&n) {
                    v.push(n);
                }
            }
        }
        v.sort();
        v
    };
    acc.evaluations += 1;
    acc.states += 1;
    acc.nontrivial += 1;
    for o1 in 0..6 {
        for o2 in 0..6 {
            let r = guard(|| -> Result<Option<Vec<String>>, String> {
                let a = SDeep::parse(ta).map_err(|e| e.msg().to_string())?;
                let b = SDeep::parse(tb).map_err(|e| e.msg().to_string())?;
                let c = SDeep::parse(tc).map_err(|e| e.msg().to_string())?;
                let ap = |k: usize, x: SDeep<'static>, y: SDeep<'static>| -> exmex::ExResult<SDeep<'static>> {
                    match k {
                    0 => x + y,
                    1 => x - y,
                    2 => x * y,
                    3 => x / y,
                    4 => x.pow(y),
                    _ => y.pow(x),
                    }
                };
                let Ok(ab) = ap(o1, a, b) else { return Ok(None) };
                let Ok(abc) = ap(o2, ab, c) else { return Ok(None) };
                let names = abc.var_names().to_vec();
                // the same list after conversion to the flat form
                let fl = SFlat::from_deepex(abc).map_err(|e| e.msg().to_string())?;
                if fl.var_names() != names.as_slice() {
                    return Err(format!("flat form lists {:?}, deep form {names:?}", fl.var_names()));
                }
                Ok(Some(names))
            });
            acc.transitions += 2;
            let opn = ["+", "-", "*", "/", "pow", "rpow"];
            let bad = match r {
                Ok(Ok(Some(names))) if names == union => None,
                Ok(Ok(Some(names))) => Some(format!("lists {names:?} instead of the sorted union {union:?}")),
                Ok(Ok(None)) => None,
                Ok(Err(m)) => Some(m),
                Err(p) => Some(format!("PANIC {}", panic_site(&p))),
            };
            if let Some(m) = bad {
                acc.violate(Violation {
                    signature: format!("derived:overloaded-operators:{}", m.split(' ').next().unwrap_or("")),
                    what: format!("(({ta}) {} ({tb})) {} ({tc}) on deep expressions: {m}", opn[o1], opn[o2]),
                    case: json!({"engine": "c04", "kind": "triple", "a": ta, "b": tb, "c": tc}),
                });
            }
        }
    }
}

/// derivative lists exactly the variables of its antiderivative (default float operators)
fn derivative_names(rep: &mut Report) {
    let texts = ["a*B", "{x y}^2+a", "sin({ b})*β+Z1", "a+{a}*_z", "Α*β*{1}+{👍+👎}", "ab-a/B", "{sin}*{+}", "Z1", "3.5"];
    let mut acc = Acc::default();
    for t in texts {
        let r = guard(|| -> Result<(), String> {
            let f = FlatEx::<f64>::parse(t).map_err(|e| e.msg().to_string())?;
            let d = DeepEx::<f64>::parse(t).map_err(|e| e.msg().to_string())?;
            let names = f.var_names().to_vec();
            let mut sorted = names.clone();
            sorted.sort();
            sorted.dedup();
            if sorted != names {
                return Err(format!("var_names {names:?} not sorted/distinct"));
            }
            for i in 0..names.len() {
                let p = f.clone().partial(i).map_err(|e| e.msg().to_string())?;
                let q = d.clone().partial(i).map_err(|e| e.msg().to_string())?;
                acc.transitions += 2;
                if p.var_names() != names.as_slice() || q.var_names() != names.as_slice() {
                    return Err(format!("derivative w.r.t. {} lists {:?} / {:?} instead of {names:?}", names[i], p.var_names(), q.var_names()));
                }
                // the same slice evaluates both
                let vals: Vec<f64> = (0..names.len()).map(|k| 0.5 + k as f64).collect();
                p.eval(&vals).map_err(|e| format!("derivative does not evaluate with the antiderivative's slice: {}", e.msg()))?;
            }
            Ok(())
        });
        acc.evaluations += 1;
        acc.states += 1;
        let bad = match r {
            Ok(Ok(())) => None,
            Ok(Err(m)) => Some(m),
            Err(p) => Some(format!("PANIC {}", panic_site(&p))),
        };
        if let Some(m) = bad {
            acc.violate(Violation { signature: "derivative-names".into(), what: format!("on {t:?}: {m}"), case: json!({"engine": "c04", "text": t, "kind": "f64-derivative"}) });
        }
    }
    rep.absorb(acc);
}

pub fn run(tier: Tier) -> i32 {
    let mut rep = Report::new("C04", tier);
    rep.rule = "all occurrence sequences up to the length bound over a 15-name universe (case, underscore, digits, Greek, braced names with blanks/digits/emoji/operator look-alikes, {a}=a, empty name) under three operator patterns; all slice lengths 0..n+2 for eval / eval_relaxed / eval_vec / eval_iter on flat, uncompiled, deep and deep-derived flat forms; families with 15..20, 63..66 and 255..258 distinct variables; derived expressions (operator application, substitution, derivative) over a pool; oracle: BTreeSet order of names and binding by name on the reference tree; distinct = distinct texts, non-trivial = more than one variable".into();
    rep.assumptions = vec!["Rust string order = byte-wise comparison of the names (String::cmp)".into()];
    let t = table();
    let max_len = if tier.thorough() { 6 } else { 5 };
    let sp = StringSpace::new(UNIVERSE.len(), max_len);
    let patterns: [&[&str]; 3] = [&["+"], &["*", "+", "^"], &["-", "*"]];
    let accs = par_ranges(
        sp.total,
        64,
        || {
            install_panic_hook();
            set_table(&t);
        },
        |st, en, acc| {
            let mut idxs = Vec::new();
            for i in st..en {
                sp.get(i, &mut idxs);
                if idxs.is_empty() {
                    continue;
                }
                for pat in patterns.iter() {
                    let mut text = String::new();
                    for (j, &k) in idxs.iter().enumerate() {
                        if j > 0 {
                            text.push(' ');
                            text.push_str(pat[(j - 1) % pat.len()]);
                            text.push(' ');
                        }
                        text.push_str(UNIVERSE[k]);
                    }
                    let tree = read(&text, &t);
                    check_arity_and_binding(&text, &tree, &t, acc);
                    if i % 4099 == 0 {
                        acc.sample(json!({"text": text, "expected_var_names": tree.vars()}));
                    }
                }
            }
        },
    );
    for a in accs {
        rep.absorb(a);
    }
    rep.bounds.push(format!("all occurrence sequences of length 1..={max_len} over {} names x 3 operator patterns x slice lengths 0..n+2: complete", UNIVERSE.len()));
    // more than 16 distinct variables (beyond the inline SmallVec capacity)
    {
        let mut texts = Vec::new();
        // (also around one machine word and one byte of variable indices)
        for m in (15..=20usize).chain([63, 64, 65, 66, 255, 256, 257, 258]) {
            let mul = [7usize, 11, 13].into_iter().find(|k| m % k != 0).unwrap_or(1);
            let names: Vec<String> = (0..m).map(|i| if m < 100 { format!("n{:02}", (i * mul) % m) } else { format!("n{:03}", (i * mul) % m) }).collect();
            let orders: Vec<Vec<usize>> = vec![
                (0..m).collect(),
                (0..m).rev().collect(),
                (0..m).map(|i| (i + 5) % m).collect(),
                (0..m).step_by(2).chain((1..m).step_by(2)).collect(),
                (0..m).chain((0..m).rev()).collect(),
                (0..m).flat_map(|i| [i, (i + 1) % m]).collect(),
            ];
            for o in orders {
                for op in [" + ", " * ", " - "] {
                    texts.push(o.iter().map(|&i| names[i].clone()).collect::<Vec<_>>().join(op));
                    texts.push(o.iter().map(|&i| format!("{{{}}}", names[i])).collect::<Vec<_>>().join(op));
                }
            }
        }
        let accs = par_ranges(
            texts.len() as u64,
            1,
            || {
                install_panic_hook();
                set_table(&t);
            },
            |st, en, acc| {
                for i in st..en {
                    let text = &texts[i as usize];
                    check_arity_and_binding(text, &read(text, &t), &t, acc);
                    acc.count("texts_with_15_to_20_distinct_variables", 1);
                }
            },
        );
        for a in accs {
            rep.absorb(a);
        }
        rep.bounds.push(format!("{} texts with 15..20, 63..66 and 255..258 distinct variables (identity, reversal, rotation, interleavings, repetitions; bare and braced): complete", texts.len()));
    }
    // derived expressions
    {
        let pool: Vec<&str> = if tier.thorough() {
            vec!["a", "B+a", "{ b}*β", "Z1", "{1}-{x y}", "2", "β^a", "sin(_z)+B", "{a}*ab", "{👍+👎}+a", "{sin}*{+}", "Α", "1+2", "-ab", "{}+a"]
        } else {
            vec!["a", "B+a", "{ b}*β", "{1}-{x y}", "2", "β^a", "sin(_z)+B", "{a}*ab", "{sin}*{+}", "Α"]
        };
        let n = pool.len();
        let accs = par_ranges(
            (n * n) as u64,
            1,
            || {
                install_panic_hook();
                set_table(&t);
            },
            |st, en, acc| {
                for i in st..en {
                    derived_pair(pool[i as usize / n], pool[i as usize % n], &t, acc);
                }
            },
        );
        for a in accs {
            rep.absorb(a);
        }
        rep.bounds.push(format!("operator application (3 operators) and substitution (every variable) for all {} ordered pairs of a pool of {n} expressions, flat and deep: complete", n * n));
    }
    // overloaded operators with neutral-element shortcuts, two steps
    {
        let pool: Vec<&'static str> = vec!["a", "B", "{ b}*β", "0", "1", "2", "a-a", "Z1+a", "1-1", "{x y}"];
        let n = pool.len();
        let accs = par_ranges(
            (n * n * n) as u64,
            4,
            || {
                install_panic_hook();
                set_table(&t);
            },
            |st, en, acc| {
                for i in st..en {
                    let i = i as usize;
                    overloaded_triple(pool[i / (n * n)], pool[(i / n) % n], pool[i % n], &t, acc);
                }
            },
        );
        for a in accs {
            rep.absorb(a);
        }
        rep.bounds.push(format!("((a o1 b) o2 c) for all {} ordered triples of a pool of {n} expressions (incl. 0, 1, 1-1, a-a) and all 36 pairs of overloaded operators (+ - * / pow, both operand orders) on deep expressions, then converted to flat: complete", n * n * n));
    }
    derivative_names(&mut rep);
    crate::derived::run_derived(&mut rep, "C04", crate::derived::Focus::Names, tier.thorough());
    rep.finish()
}
