//! C02 - constant folding never changes what an expression computes.
use crate::common::*;
use crate::enumr::*;
use crate::report::*;
use crate::spec::Tree;
use crate::strsweep::*;
use crate::sym::*;
use crate::treecheck::*;
use exmex::prelude::*;
use serde_json::json;

fn al(bins: &[u16], uns: &[u16], leaves: Vec<Tree>) -> Alphabet {
    Alphabet { leaves, uns: uns.to_vec(), bins: bins.to_vec() }
}
fn lit_rich() -> Vec<Tree> {
    vec![Tree::lit(1), Tree::lit(2), Tree::Const(15), Tree::var("x"), Tree::var("y")]
}
fn lit_rich_small() -> Vec<Tree> {
    vec![Tree::lit(1), Tree::lit(2), Tree::var("x")]
}

pub const PIPES: [Pipe; 5] = [Pipe::P, Pipe::W, Pipe::P2, Pipe::W3, Pipe::D];

fn campaigns(tier: Tier) -> Vec<Campaign> {
    let t0 = universal_table(PRIO_MAPS[0]);
    let mk = |name: &str, table: &std::sync::Arc<Table>, a: Alphabet, sizes: Vec<(usize, usize)>, dev: usize| Campaign {
        name: name.into(),
        table: table.clone(),
        alphabet: a,
        sizes,
        max_dev: dev,
        max_extra: 2,
        blanks: vec![0],
        pipes: PIPES.to_vec(),
        filter: None,
        choice_gen: None,
    };
    let mut v = vec![];
    v.push(mk("tiny-all-renderings", &t0, al(&UT_BINS_ALL, &UT_UNS_ALL, lit_rich()), vec![(1, 0), (1, 1), (1, 2), (2, 0), (2, 1)], 99));
    if tier.thorough() {
        v.push(mk("n3-all-dev1", &t0, al(&UT_BINS_ALL, &UT_UNS_SMALL, lit_rich()), vec![(2, 2), (3, 0), (3, 1)], 1));
        v.push(mk("n3u2-dev0", &t0, al(&UT_BINS_ALL, &[5, 12, 14], lit_rich_small()), vec![(3, 2)], 0));
        v.push(mk("n4-all-dev0", &t0, al(&UT_BINS_ALL, &[], leaves_std()), vec![(4, 0)], 0));
        v.push(mk("n4u1-small-dev0", &t0, al(&UT_BINS_SMALL, &UT_UNS_SMALL, lit_rich_small()), vec![(4, 1)], 0));
        v.push(mk("n5-small-dev0", &t0, al(&UT_BINS_SMALL, &[], lit_rich_small()), vec![(5, 0)], 0));
        v.push(mk("n6-tiny-dev0", &t0, al(&[0, 2, 4, 5], &[], vec![Tree::lit(1), Tree::var("x")]), vec![(6, 0)], 0));
        for (i, pm) in PRIO_MAPS.iter().enumerate().skip(1) {
            let t = universal_table(*pm);
            v.push(mk(&format!("priomap{i}-n4"), &t, al(&UT_BINS_SMALL, &[], lit_rich_small()), vec![(3, 1), (4, 0)], 0));
        }
    } else {
        v.push(mk("n3-all-dev0", &t0, al(&UT_BINS_ALL, &UT_UNS_SMALL, lit_rich()), vec![(3, 0), (3, 1)], 0));
        v.push(mk("n4-small-dev0", &t0, al(&UT_BINS_SMALL, &[], lit_rich_small()), vec![(4, 0)], 0));
        v.push(mk("n5-tiny-dev0", &t0, al(&[0, 2, 4, 5], &[], vec![Tree::lit(1), Tree::var("x")]), vec![(5, 0)], 0));
    }
    v
}

/// evaluation-time operator applications of the folded vs the unfolded form (non-vacuity)
fn folding_counter(_tree: &Tree, text: &str, is_default: bool, _t: &Table, acc: &mut Acc) {
    if !is_default {
        return;
    }
    let _ = guard(|| {
        let (Ok(p), Ok(w)) = (SFlat::parse(text), SFlat::parse_wo_compile(text)) else { return };
        let vals = var_syms(p.var_names().len());
        let a0 = applies();
        let _ = p.eval(&vals);
        let a1 = applies();
        let _ = w.eval(&vals);
        let a2 = applies();
        if a1 - a0 < a2 - a1 {
            acc.count("trees_where_folded_form_applies_fewer_operators_at_eval_time", 1);
        }
        let mut p2 = p.clone();
        p2.compile();
        if p2 == p {
            acc.count("trees_where_second_compile_changes_nothing", 1);
        } else {
            acc.count("trees_where_second_compile_changes_structure", 1);
        }
    });
}

/// differential P vs W (and D) on every token string both accept
pub fn string_differential(rep: &mut Report, max_len: usize, tokens: Vec<&'static str>, name: &str) {
    let table = universal_table(PRIO_MAPS[0]);
    let sw = Sweep { name, tokens, max_len, table: table.clone(), sep: " " };
    sweep_strings(&sw, rep, &|text, _idx, acc| {
        let p = run_pipe(Pipe::P, text);
        let w = run_pipe(Pipe::W, text);
        acc.transitions += 2;
        let agree = match (&p, &w) {
            (Out::Val(n1, v1), Out::Val(n2, v2)) => {
                acc.states += 1;
                if v1.size() > 1 {
                    acc.nontrivial += 1;
                }
                acc.count("strings_accepted_by_parse_and_parse_wo_compile", 1);
                n1 == n2 && nf_ac(v1, &table) == nf_ac(v2, &table) && !v1.contains_dflt() && !v2.contains_dflt()
            }
            (Out::Err(_), Out::Err(_)) => true,
            (Out::Panic(_), _) | (_, Out::Panic(_)) => false,
            _ => false,
        };
        if !agree {
            acc.violate(Violation {
                signature: format!("P-vs-W:{}", sig_text(text, &p, &w)),
                what: format!("parse vs parse_wo_compile differ on {text:?}: {} vs {}", p.short(&table), w.short(&table)),
                case: json!({"engine": "diff-text", "table": table.describe(), "text": text, "pipes": ["P", "W"]}),
            });
        }
        if acc.evaluations % 50021 == 1 {
            acc.sample(json!({"string": text, "parse": p.short(&table)}));
        }
    });
}

pub fn sig_text(text: &str, a: &Out, b: &Out) -> String {
    match (a, b) {
        (Out::Panic(p), _) | (_, Out::Panic(p)) => format!("panic:{}", panic_site(p)),
        _ => text.to_string(),
    }
}

pub fn replay_diff_case(case: &serde_json::Value) -> i32 {
    install_panic_hook();
    let table = Table::from_json(&case["table"]);
    set_table(&table);
    let text = case["text"].as_str().unwrap_or("");
    println!("text: {text:?}");
    let mut outs = vec![];
    for p in case["pipes"].as_array().cloned().unwrap_or_default() {
        let pipe = match p.as_str().unwrap_or("") {
            "P" => Pipe::P,
            "W" => Pipe::W,
            "D" => Pipe::D,
            "PD" => Pipe::PD,
            "DF" => Pipe::DF,
            _ => Pipe::PDF,
        };
        let o = run_pipe(pipe, text);
        println!("  {pipe:?}: {}", o.short(&table));
        outs.push(o);
    }
    let same = outs.windows(2).all(|w| match (&w[0], &w[1]) {
        (Out::Val(n1, v1), Out::Val(n2, v2)) => n1 == n2 && nf_ac(v1, &table) == nf_ac(v2, &table),
        (Out::Err(_), Out::Err(_)) => true,
        _ => false,
    });
    if same {
        println!("  => agree");
        0
    } else {
        println!("  => MISMATCH");
        1
    }
}

pub fn run(tier: Tier) -> i32 {
    let mut rep = Report::new("C02", tier);
    rep.rule = "all trees of the listed sizes with literal-rich leaves through parse, parse_wo_compile, compile() again (x2), DeepEx::parse, each compared with the reference tree in the free term algebra modulo AC; plus all token strings up to the length bound for the folded/unfolded differential; distinct = distinct trees / accepted strings; non-trivial = contains an operator".into();
    rep.assumptions = vec!["as C01; the commutative flag is only set on operators the oracle treats as AC".into()];
    for c in campaigns(tier) {
        let raw = run_campaign(&c, &mut rep, "C02", Some(&folding_counter));
        shrink_and_report(raw, &c.table, &mut rep, &c.name);
    }
    crate::c01::run_large_families(&mut rep, &PIPES);
    let l = if tier.thorough() { 6 } else { 5 };
    string_differential(&mut rep, l, std_tokens(), "strings-std");
    string_differential(&mut rep, if tier.thorough() { 6 } else { 5 }, macro_tokens(), "strings-macro");
    if tier.thorough() {
        string_differential(&mut rep, 7, small_tokens(), "strings-small");
    }
    rep.finish()
}
