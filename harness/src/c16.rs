//! C16 - value-typed arithmetic follows the documented typing and error rules.
//! C17 - value-typed operators are total: problems surface as error values.
use crate::common::*;
use crate::enumr::*;
use crate::langs::*;
use crate::report::*;
use crate::spec::{self, LitKind, Renderer, SpecResult, Tree};
use crate::sym::*;
use crate::valref::{self, from_val, matches, to_val, Spec, RV};
use exmex::{Express, MakeOperators, Operator, Val, ValOpsFactory};
use serde_json::json;

type V = Val<i32, f64>;

#[derive(Clone, Copy, PartialEq, Eq)]
pub enum Which {
    C16,
    C17,
}

fn show_rv(v: &RV) -> String {
    format!("{v:?}")
}

/// judge one operator application; `got` = Ok(value) or Err(panic text)
fn judge_op(which: Which, route: &str, opname: &str, args: &[RV], spec: &Spec, got: &Result<RV, String>, acc: &mut Acc, text: Option<&str>) {
    acc.transitions += 1;
    let case = json!({"engine": "val-op", "route": route, "op": opname, "args": args.iter().map(show_rv).collect::<Vec<_>>(), "text": text});
    let kind_sig = |v: &RV| match v {
        RV::Int(i) if *i == i32::MIN => "Int(MIN)".to_string(),
        RV::Int(_) => "Int".into(),
        RV::Float(f) if f.is_nan() => "Float(NaN)".into(),
        RV::Float(f) if f.is_infinite() => "Float(inf)".into(),
        RV::Float(_) => "Float".into(),
        RV::Bool(_) => "Bool".into(),
        RV::Array(_) => "Array".into(),
        RV::None => "None".into(),
        RV::Error => "Error".into(),
    };
    let kinds: Vec<String> = args.iter().map(kind_sig).collect();
    match got {
        Err(p) => {
            if which == Which::C17 {
                acc.violate(Violation {
                    signature: format!("panic:{opname}:{}:{}", kinds.join(","), panic_site(p)),
                    what: format!("[{route}] operator {opname} panicked on {:?}{}: {p}", args, text.map(|t| format!(" (text {t:?})")).unwrap_or_default()),
                    case,
                });
            } else {
                acc.count("panics(C17's business, not judged here)", 1);
            }
        }
        Ok(v) => match spec {
            Spec::Exactly(want) => {
                acc.count("applications_with_an_exactly_specified_result", 1);
                if which == Which::C16 && !matches(want, v) {
                    acc.violate(Violation {
                        signature: format!("wrong-result:{opname}:{}", kinds.join(",")),
                        what: format!("[{route}] {opname}{:?} = {v:?}, documented: {want:?}{}", args, text.map(|t| format!(" (text {t:?})")).unwrap_or_default()),
                        case,
                    });
                }
            }
            Spec::MustBeError => {
                acc.count("applications_that_must_yield_an_error_value", 1);
                if !matches!(v, RV::Error) {
                    acc.violate(Violation {
                        signature: format!("missing-error:{opname}:{}", kinds.join(",")),
                        what: format!("[{route}] {opname}{:?} = {v:?}, but this situation must be reported as an error value{}", args, text.map(|t| format!(" (text {t:?})")).unwrap_or_default()),
                        case,
                    });
                }
            }
            Spec::Unspecified => acc.count("applications_the_documentation_leaves_open(totality only)", 1),
        },
    }
}

/// an expression text whose folded value is `v` (None if there is no short spelling)
fn spell(v: &RV) -> Option<String> {
    Some(match v {
        RV::Int(i) if *i >= 0 => format!("{i}"),
        RV::Int(i) if *i == i32::MIN => "(0-2147483647-1)".into(),
        RV::Int(i) => format!("(0-{})", -(*i as i64)),
        RV::Float(f) if f.is_nan() => "(0.0/0.0)".into(),
        RV::Float(f) if *f == f64::INFINITY => "(1.0/0.0)".into(),
        RV::Float(f) if *f == f64::NEG_INFINITY => "(0.0-1.0/0.0)".into(),
        RV::Float(f) => {
            let a = f.abs();
            if a != 0.0 && !(1e-4..1e16).contains(&a) {
                return None;
            }
            let s = format!("{a:?}");
            if s.contains('e') {
                return None;
            }
            if f.is_sign_negative() {
                // unary minus keeps the sign of zero
                format!("(-{s})")
            } else {
                s
            }
        }
        RV::Bool(b) => format!("{b}"),
        RV::Array(a) => {
            if a.is_empty() || a.iter().any(|x| !x.is_finite() || x.fract() != 0.0 || x.abs() > 1e6) {
                return None;
            }
            format!("[{}]", a.iter().map(|x| format!("{}", *x as i64)).collect::<Vec<_>>().join(","))
        }
        RV::None => "(1 if false)".into(),
        RV::Error => "(1/0)".into(),
    })
}

fn op_sweep(which: Which, tier: Tier, rep: &mut Report) {
    let cat = valref::catalogue(true);
    let _ = tier;
    let ops: Vec<Operator<'static, V>> = ValOpsFactory::<i32, f64>::make();
    // work items: (op index, is_binary, a index)
    let mut items: Vec<(usize, bool, usize)> = Vec::new();
    for (k, o) in ops.iter().enumerate() {
        if o.constant().is_some() {
            continue;
        }
        for a in 0..cat.len() {
            if o.has_unary() {
                items.push((k, false, a));
            }
            if o.has_bin() {
                items.push((k, true, a));
            }
        }
    }
    let accs = par_ranges(
        items.len() as u64,
        4,
        install_panic_hook,
        |st, en, acc| {
            let ops: Vec<Operator<'static, V>> = ValOpsFactory::<i32, f64>::make();
            for i in st..en {
                let (k, is_bin, ai) = items[i as usize];
                let o = &ops[k];
                let name = o.repr();
                let a = &cat[ai];
                if !is_bin {
                    let f = o.unary().unwrap();
                    let spec = valref::un(name, a);
                    acc.evaluations += 1;
                    acc.states += 1;
                    if !matches!(spec, Spec::Unspecified) {
                        acc.nontrivial += 1;
                    }
                    let got = guard(|| from_val(&f(to_val(a))));
                    judge_op(which, "function-pointer", name, &[a.clone()], &spec, &got, acc, None);
                    // evaluation time, through a variable
                    let text = format!("{name}(x)");
                    let got = guard(|| exmex::parse_val::<i32, f64>(&text).map(|e| e.eval(&[to_val(a)]).map(|v| from_val(&v))));
                    match got {
                        Ok(Ok(Ok(v))) => judge_op(which, "eval-time", name, &[a.clone()], &spec, &Ok(v), acc, Some(&text)),
                        Ok(_) => acc.count("texts_not_accepted(skipped)", 1),
                        Err(p) => judge_op(which, "eval-time", name, &[a.clone()], &spec, &Err(p), acc, Some(&text)),
                    }
                    // parse time, through folding of a literal spelling
                    if let Some(sa) = spell(a) {
                        let text = format!("{name}({sa})");
                        let got = guard(|| exmex::parse_val::<i32, f64>(&text).map(|e| e.eval(&[]).map(|v| from_val(&v))));
                        match got {
                            Ok(Ok(Ok(v))) => judge_op(which, "parse-time-folding", name, &[a.clone()], &spec, &Ok(v), acc, Some(&text)),
                            Ok(_) => acc.count("texts_not_accepted(skipped)", 1),
                            Err(p) => judge_op(which, "parse-time-folding", name, &[a.clone()], &spec, &Err(p), acc, Some(&text)),
                        }
                    }
                } else {
                    let f = o.bin().unwrap().apply;
                    let e_var = guard(|| exmex::parse_val::<i32, f64>(&format!("x {name} y"))).ok().and_then(|r| r.ok());
                    for b in cat.iter() {
                        let spec = valref::bin(name, a, b);
                        acc.evaluations += 1;
                        acc.states += 1;
                        if !matches!(spec, Spec::Unspecified) {
                            acc.nontrivial += 1;
                        }
                        let got = guard(|| from_val(&f(to_val(a), to_val(b))));
                        judge_op(which, "function-pointer", name, &[a.clone(), b.clone()], &spec, &got, acc, None);
                        if let Some(e) = &e_var {
                            let got = guard(|| e.eval(&[to_val(a), to_val(b)]).map(|v| from_val(&v)));
                            match got {
                                Ok(Ok(v)) => judge_op(which, "eval-time", name, &[a.clone(), b.clone()], &spec, &Ok(v), acc, Some("x <op> y")),
                                Ok(Err(_)) => {}
                                Err(p) => judge_op(which, "eval-time", name, &[a.clone(), b.clone()], &spec, &Err(p), acc, Some("x <op> y")),
                            }
                        }
                        if let (Some(sa), Some(sb)) = (spell(a), spell(b)) {
                            let text = format!("({sa}) {name} ({sb})");
                            let got = guard(|| exmex::parse_val::<i32, f64>(&text).map(|e| e.eval(&[]).map(|v| from_val(&v))));
                            match got {
                                Ok(Ok(Ok(v))) => judge_op(which, "parse-time-folding", name, &[a.clone(), b.clone()], &spec, &Ok(v), acc, Some(&text)),
                                Ok(_) => acc.count("texts_not_accepted(skipped)", 1),
                                Err(p) => judge_op(which, "parse-time-folding", name, &[a.clone(), b.clone()], &spec, &Err(p), acc, Some(&text)),
                            }
                        }
                    }
                }
                if i % 53 == 0 {
                    acc.sample(json!({"operator": name, "first_operand": show_rv(a), "binary": is_bin}));
                }
            }
        },
    );
    for a in accs {
        rep.absorb(a);
    }
    rep.bounds.push(format!(
        "every unary operator x {} catalogue values and every binary operator x {}^2 ordered pairs of ValOpsFactory::<i32,f64>, via function pointers, via variables at evaluation time and via literal spellings folded at parse time: complete",
        cat.len(),
        cat.len()
    ));
    // the spellings must fold to the catalogue values (self-check of the parse-time route)
    for v in &cat {
        if let Some(s) = spell(v) {
            let got = guard(|| exmex::parse_val::<i32, f64>(&s).and_then(|e| e.eval(&[])).map(|x| from_val(&x)));
            let ok = matches!(&got, Ok(Ok(x)) if matches(v, x));
            if !ok && !matches!(v, RV::Int(i32::MIN)) {
                // a folding defect on the spelling itself is reported by the tree part of C16
                rep.notes.push(format!("spelling {s:?} of {v:?} folds to {got:?}"));
            }
        }
    }
}

// ---------------------------------------------------------------------------------------------
// expression trees over the real value table (C16)

fn tree_part(tier: Tier, rep: &mut Report) {
    let lang = lang_val();
    let t = lang.table.clone();
    let f = |n: &str| t.find(n).unwrap();
    let leaves = vec![Tree::Lit("1".into()), Tree::Lit("2".into()), Tree::Lit("2.5".into()), Tree::Lit("true".into()), Tree::var("x")];
    let bins_all: Vec<u16> = ["+", "-", "*", "/", "%", "^", "==", "!=", "<", ">=", "&&", "||", "if", "else", "min", "|", "&", "<<"].iter().map(|n| f(n)).collect();
    let bins_small: Vec<u16> = ["+", "-", "*", "/", "==", "<", "&&", "if", "else", "min"].iter().map(|n| f(n)).collect();
    let uns: Vec<u16> = ["-", "to_float"].iter().map(|n| f(n)).collect();
    let xs: Vec<RV> = vec![RV::Int(3), RV::Float(0.5), RV::Bool(false), RV::Int(-2)];
    let mut camps: Vec<(Alphabet, Vec<(usize, usize)>)> = vec![(Alphabet { leaves: leaves.clone(), uns: uns.clone(), bins: bins_all.clone() }, vec![(1, 0), (1, 1), (2, 0), (2, 1), (3, 0)])];
    if tier.thorough() {
        camps.push((Alphabet { leaves: leaves.clone(), uns: uns.clone(), bins: bins_all.clone() }, vec![(3, 1), (3, 2), (4, 0)]));
        camps.push((Alphabet { leaves: vec![Tree::Lit("1".into()), Tree::Lit("2.5".into()), Tree::Lit("true".into()), Tree::var("x")], uns: uns.clone(), bins: bins_small.clone() }, vec![(4, 1)]));
        camps.push((Alphabet { leaves: vec![Tree::Lit("2".into()), Tree::Lit("true".into()), Tree::var("x")], uns: vec![], bins: ["+", "-", "*", "==", "if", "else"].iter().map(|n| f(n)).collect() }, vec![(5, 0)]));
    } else {
        camps.push((Alphabet { leaves: vec![Tree::Lit("1".into()), Tree::Lit("2.5".into()), Tree::Lit("true".into()), Tree::var("x")], uns: uns.clone(), bins: bins_small.clone() }, vec![(3, 1), (4, 0)]));
    }
    // vector operators
    camps.push((
        Alphabet {
            leaves: vec![Tree::Lit("[1,2,3]".into()), Tree::Lit("[0,1,0]".into()), Tree::Lit("[2,0,1]".into()), Tree::var("x"), Tree::Lit("2".into())],
            uns: vec![f("-"), f("length")],
            bins: ["cross", "dot", "+", "*", "-", "."].iter().map(|n| f(n)).collect(),
        },
        if tier.thorough() { vec![(2, 0), (2, 1), (3, 0), (3, 1), (4, 0)] } else { vec![(2, 0), (2, 1), (3, 0)] },
    ));
    for (ci, (al, sizes)) in camps.into_iter().enumerate() {
        let xs: Vec<RV> = if ci >= 2 { vec![RV::Array(vec![1.0, 0.0, 2.0]), RV::Array(vec![0.0, 3.0, 1.0]), RV::Int(1)] } else { xs.clone() };
        let space = TreeSpace::new(al, &sizes);
        let accs = par_ranges(space.total, 256, install_panic_hook, |st, en, acc| {
            let r = Renderer { t: &t, lk: LitKind::Val };
            for i in st..en {
                let tree = space.get(i);
                let text = r.render_default(&tree);
                match spec::read(&text, &t, LitKind::Val) {
                    SpecResult::Ok(t2) if t2 == tree => {}
                    o => {
                        println!("MACHINERY-FAILURE property=C16 reference does not read back {text:?}: {o:?}");
                        std::process::exit(2);
                    }
                }
                acc.states += 1;
                let vars = tree.vars();
                let parsed = guard(|| exmex::parse_val::<i32, f64>(&text));
                let e = match parsed {
                    Ok(Ok(e)) => e,
                    Ok(Err(er)) => {
                        acc.violate(Violation { signature: "tree:rejected".into(), what: format!("parse_val rejects the well-formed text {text:?}: {}", er.msg()), case: json!({"engine": "val-tree", "text": text}) });
                        continue;
                    }
                    Err(_) => {
                        acc.count("panics(C17's business, not judged here)", 1);
                        continue;
                    }
                };
                let xvals: Vec<RV> = if vars.is_empty() { vec![RV::None] } else { xs.clone() };
                for xv in xvals {
                    acc.evaluations += 1;
                    let vals: Vec<RV> = vars.iter().map(|_| xv.clone()).collect();
                    let want = valref::eval_tree(&tree, &t, &vars, &vals);
                    let got = guard(|| e.eval(&vals.iter().map(to_val).collect::<Vec<_>>()).map(|v| from_val(&v)));
                    acc.transitions += 1;
                    let got = match got {
                        Ok(Ok(v)) => v,
                        Ok(Err(er)) => {
                            acc.violate(Violation { signature: "tree:eval-error".into(), what: format!("eval of {text:?} failed: {}", er.msg()), case: json!({"engine": "val-tree", "text": text}) });
                            continue;
                        }
                        Err(_) => {
                            acc.count("panics(C17's business, not judged here)", 1);
                            continue;
                        }
                    };
                    let bad = match &want {
                        Spec::Exactly(w) => {
                            acc.nontrivial += 1;
                            !valref::matches_approx(w, &got)
                        }
                        Spec::MustBeError => {
                            acc.nontrivial += 1;
                            !matches!(got, RV::Error)
                        }
                        Spec::Unspecified => {
                            acc.count("tree_evaluations_through_an_unspecified_operation(skipped)", 1);
                            false
                        }
                    };
                    if bad {
                        acc.violate(Violation {
                            signature: format!("tree:{}", canon_tree(&tree, &t)),
                            what: format!("{text:?} at x={xv:?} evaluates to {got:?}; precedence rules + documented operator semantics give {want:?}"),
                            case: json!({"engine": "val-tree", "text": text}),
                        });
                    }
                }
                if i % 7919 == 0 {
                    acc.sample(json!({"tree_text": text}));
                }
            }
        });
        for a in accs {
            rep.absorb(a);
        }
        rep.bounds.push(format!("all {} trees of sizes {sizes:?} over the real value table (priorities and flags read from ValOpsFactory), x in {xs:?}: complete", space.total));
    }
}

pub fn replay_tree(case: &serde_json::Value) -> i32 {
    install_panic_hook();
    let text = case["text"].as_str().unwrap_or("");
    let t = val_table();
    let SpecResult::Ok(tree) = spec::read(text, &t, LitKind::Val) else {
        println!("reference does not read {text:?}");
        return 2;
    };
    let vars = tree.vars();
    let mut rc = 0;
    for xv in [RV::Int(3), RV::Float(0.5), RV::Bool(false), RV::Int(-2)] {
        let vals: Vec<RV> = vars.iter().map(|_| xv.clone()).collect();
        let want = valref::eval_tree(&tree, &t, &vars, &vals);
        let got = guard(|| exmex::parse_val::<i32, f64>(text).and_then(|e| e.eval(&vals.iter().map(to_val).collect::<Vec<_>>())).map(|v| from_val(&v)));
        println!("{text:?} at x={xv:?}: reference {want:?}, library {got:?}");
        if let (Spec::Exactly(w), Ok(Ok(g))) = (&want, &got) {
            if !matches(w, g) {
                rc = 1;
            }
        }
    }
    rc
}

pub fn replay_op(case: &serde_json::Value) -> i32 {
    println!("operator case: {case}");
    if let Some(t) = case["text"].as_str() {
        if t != "x <op> y" {
            install_panic_hook();
            let r = guard(|| exmex::parse_val::<i32, f64>(t).and_then(|e| e.eval(&[])).map(|v| from_val(&v)));
            println!("parse_val({t:?}).eval(&[]) = {r:?}");
            return if r.is_err() { 1 } else { 0 };
        }
    }
    0
}

/// totality of the second instantiation the documentation mentions (no reference values)
fn totality_i64_f32(rep: &mut Report) {
    type W = Val<i64, f32>;
    let ints: Vec<i64> = vec![i64::MIN, i64::MIN + 1, -(1 << 40), -2147483649, -2147483648, -64, -63, -2, -1, 0, 1, 2, 3, 20, 21, 62, 63, 64, 65, 2147483647, 2147483648, 1 << 40, i64::MAX - 1, i64::MAX];
    let floats: Vec<f32> = vec![0.0, -0.0, 1.0, -1.0, 0.5, 2.5, -2.5, 1e30, -1e30, f32::MIN_POSITIVE, f32::INFINITY, f32::NEG_INFINITY, f32::NAN, 9.223372e18, -9.223372e18, 9.3e18, 1e10, 16777216.0, f32::MAX];
    let mut cat: Vec<W> = Vec::new();
    cat.extend(ints.iter().map(|i| Val::Int(*i)));
    cat.extend(floats.iter().map(|f| Val::Float(*f)));
    cat.push(Val::Bool(true));
    cat.push(Val::Bool(false));
    cat.push(Val::Array(smallvec::smallvec![]));
    cat.push(Val::Array(smallvec::smallvec![1.0, 2.0, 3.0]));
    cat.push(Val::Array(smallvec::smallvec![f32::NAN, 1.0]));
    cat.push(Val::None);
    cat.push(Val::Error(exmex::ExError::new("catalogue error value")));
    let n_ops = ValOpsFactory::<i64, f32>::make().len();
    let accs = par_ranges(n_ops as u64, 1, install_panic_hook, |st, en, acc| {
        let ops: Vec<Operator<'static, W>> = ValOpsFactory::<i64, f32>::make();
        for k in st..en {
            let o = &ops[k as usize];
            if let Ok(f) = o.unary() {
                for a in &cat {
                    acc.evaluations += 1;
                    acc.states += 1;
                    acc.transitions += 1;
                    if let Err(p) = guard(|| {
                        let _ = f(a.clone());
                    }) {
                        acc.violate(Violation {
                            signature: format!("panic:i64,f32:{}:{}", o.repr(), panic_site(&p)),
                            what: format!("ValOpsFactory::<i64,f32> operator {} panicked on {a:?}: {p}", o.repr()),
                            case: json!({"engine": "val-op", "route": "function-pointer<i64,f32>", "op": o.repr(), "args": [format!("{a:?}")]}),
                        });
                    }
                }
            }
            if let Ok(b) = o.bin() {
                for a in &cat {
                    for c in &cat {
                        acc.evaluations += 1;
                        acc.states += 1;
                        acc.transitions += 1;
                        if let Err(p) = guard(|| {
                            let _ = (b.apply)(a.clone(), c.clone());
                        }) {
                            acc.violate(Violation {
                                signature: format!("panic:i64,f32:{}:{}", o.repr(), panic_site(&p)),
                                what: format!("ValOpsFactory::<i64,f32> operator {} panicked on ({a:?}, {c:?}): {p}", o.repr()),
                                case: json!({"engine": "val-op", "route": "function-pointer<i64,f32>", "op": o.repr(), "args": [format!("{a:?}"), format!("{c:?}")]}),
                            });
                        }
                    }
                }
            }
        }
    });
    for a in accs {
        rep.absorb(a);
    }
    rep.bounds.push(format!("ValOpsFactory::<i64,f32>: every operator x {} catalogue values (all ordered pairs), totality only: complete", cat.len()));
}

// ---------------------------------------------------------------------------------------------
// other integer widths: integer operators against exact (BigInt) arithmetic

use num::bigint::BigInt;
use num::{One, Signed as _, ToPrimitive, Zero};

#[derive(Debug, PartialEq)]
enum IntSpec {
    Exactly(BigInt),
    MustBeError,
    Unspecified,
}
fn fits(v: &BigInt, bits: u32) -> bool {
    let lim = BigInt::one() << (bits - 1);
    *v >= -lim.clone() && *v < lim
}
/// documented integer semantics for a signed two's complement type of `bits` bits
fn int_ref(name: &str, a: &BigInt, b: Option<&BigInt>, bits: u32) -> IntSpec {
    let res = |v: BigInt| if fits(&v, bits) { IntSpec::Exactly(v) } else { IntSpec::MustBeError };
    match (name, b) {
        ("-", None) => res(-a.clone()),
        ("abs", None) => res(a.abs()),
        ("fact", None) => {
            if a.is_negative() {
                return IntSpec::MustBeError;
            }
            let Some(n) = a.to_u32().filter(|n| *n <= 200) else { return IntSpec::MustBeError };
            let mut r = BigInt::one();
            for i in 2..=n {
                r *= i;
            }
            res(r)
        }
        ("+", Some(b)) => res(a + b),
        ("-", Some(b)) => res(a - b),
        ("*", Some(b)) => res(a * b),
        ("/", Some(b)) | ("%", Some(b)) => {
            if b.is_zero() {
                IntSpec::MustBeError
            } else {
                // truncating division / remainder with the sign of the dividend
                let q = {
                    let (qa, _) = (a.abs() / b.abs(), ());
                    if a.is_negative() != b.is_negative() {
                        -qa
                    } else {
                        qa
                    }
                };
                if name == "/" {
                    res(q)
                } else if !fits(&q, bits) {
                    // MIN % -1
                    IntSpec::MustBeError
                } else {
                    res(a - b * q)
                }
            }
        }
        ("^", Some(b)) => {
            if b.is_negative() {
                return IntSpec::MustBeError;
            }
            if b.to_u32().is_none() {
                // "out-of-range ... powers reported as an error": an exponent beyond 32 bits may be
                // refused even where the mathematical result (0, 1, -1) would fit
                return if a.is_zero() || a.is_one() || *a == -BigInt::one() { IntSpec::Unspecified } else { IntSpec::MustBeError };
            }
            if a.is_zero() || a.is_one() || *a == -BigInt::one() {
                let odd = b.bit(0);
                return res(if a.is_zero() { if b.is_zero() { BigInt::one() } else { BigInt::zero() } } else if a.is_one() || !odd { BigInt::one() } else { -BigInt::one() });
            }
            match b.to_u32().filter(|e| *e <= 130) {
                Some(e) => res(num::pow(a.clone(), e as usize)),
                None => IntSpec::MustBeError,
            }
        }
        ("<<", Some(b)) | (">>", Some(b)) => {
            match b.to_u32().filter(|s| *s < bits) {
                None => IntSpec::MustBeError,
                Some(s) if name == ">>" => IntSpec::Exactly(a >> s),
                // bits shifted out of a left shift: not pinned down by the documentation
                Some(s) => {
                    let v = a << s;
                    if fits(&v, bits) {
                        IntSpec::Exactly(v)
                    } else {
                        IntSpec::Unspecified
                    }
                }
            }
        }
        _ => IntSpec::Unspecified,
    }
}

fn width_sweep<I>(which: Which, bits: u32, rep: &mut Report)
where
    I: exmex::DataType + num::PrimInt + num::Signed + std::str::FromStr + std::fmt::Display + Send + Sync + 'static,
    <I as std::str::FromStr>::Err: std::fmt::Debug,
{
    let tname = format!("i{bits}");
    let lim = BigInt::one() << (bits - 1);
    let mut cat: Vec<BigInt> = Vec::new();
    for k in [0i64, 1, 2, 3, 5, 7, 12, 13, 20, 21, 33, 34, 35, 63, 64, 65, 127, 128, (bits as i64) - 2, (bits as i64) - 1, bits as i64, bits as i64 + 1] {
        cat.push(BigInt::from(k));
        cat.push(BigInt::from(-k));
    }
    for d in 0..3 {
        cat.push(lim.clone() - 1 - d);
        cat.push(-lim.clone() + d);
        cat.push((BigInt::one() << (bits / 2)) + d - 1);
        cat.push(-(BigInt::one() << (bits / 2)) + d);
    }
    cat.retain(|v| fits(v, bits));
    cat.sort();
    cat.dedup();
    let to_i = |v: &BigInt| -> I { v.to_string().parse::<I>().expect("catalogue value fits") };
    let ops: Vec<Operator<'static, Val<I, f64>>> = ValOpsFactory::<I, f64>::make();
    let mut acc = Acc::default();
    let mut judge = |opname: &str, args: &[&BigInt], spec: IntSpec, got: Result<Val<I, f64>, String>, route: &str, acc: &mut Acc| {
        acc.evaluations += 1;
        acc.states += 1;
        acc.transitions += 1;
        let case = json!({"engine": "val-op", "route": format!("{route}<{tname},f64>"), "op": opname, "args": args.iter().map(|a| a.to_string()).collect::<Vec<_>>()});
        match got {
            Err(p) => {
                if which == Which::C17 {
                    acc.violate(Violation { signature: format!("panic:{tname}:{opname}:{}", panic_site(&p)), what: format!("[{route}] ValOpsFactory::<{tname},f64> operator {opname} panicked on {args:?}: {p}"), case });
                }
            }
            Ok(v) => match spec {
                IntSpec::Exactly(want) => {
                    acc.nontrivial += 1;
                    let ok = matches!(&v, Val::Int(i) if i.to_string() == want.to_string());
                    if which == Which::C16 && !ok {
                        acc.violate(Violation { signature: format!("wrong-result:{tname}:{opname}"), what: format!("[{route}] {tname}: {opname}{args:?} = {v:?}, exact integer arithmetic gives {want} (which fits)"), case });
                    }
                }
                IntSpec::MustBeError => {
                    acc.nontrivial += 1;
                    if !matches!(v, Val::Error(_)) {
                        acc.violate(Violation { signature: format!("missing-error:{tname}:{opname}"), what: format!("[{route}] {tname}: {opname}{args:?} = {v:?}, but the exact result does not fit / the operand is invalid: must be an error value"), case });
                    }
                }
                IntSpec::Unspecified => {}
            },
        }
    };
    for o in &ops {
        let name = o.repr();
        if let Ok(f) = o.unary() {
            if matches!(name, "-" | "abs" | "fact") {
                for a in &cat {
                    let spec = int_ref(name, a, None, bits);
                    let x = Val::<I, f64>::Int(to_i(a));
                    let got = guard(|| f(x.clone()));
                    judge(name, &[a], spec, got, "function-pointer", &mut acc);
                    // through a parsed expression and a variable
                    let spec = int_ref(name, a, None, bits);
                    let text = format!("{name}(x)");
                    let got = guard(|| exmex::parse_val::<I, f64>(&text).and_then(|e| e.eval(&[x.clone()]))).and_then(|r| r.map_err(|e| format!("rejected: {}", e.msg())));
                    match got {
                        Err(m) if m.starts_with("rejected") => acc.violate(Violation { signature: format!("rejected:{tname}:{name}"), what: format!("{tname}: {text:?} at x = {a}: {m}"), case: json!({"engine": "val-op", "op": name}) }),
                        g => judge(name, &[a], spec, g, "variable", &mut acc),
                    }
                }
            }
        }
        if let Ok(b) = o.bin() {
            if matches!(name, "+" | "-" | "*" | "/" | "%" | "^" | "<<" | ">>") {
                for x in &cat {
                    for y in &cat {
                        let spec = int_ref(name, x, Some(y), bits);
                        let (vx, vy) = (Val::<I, f64>::Int(to_i(x)), Val::<I, f64>::Int(to_i(y)));
                        let got = guard(|| (b.apply)(vx.clone(), vy.clone()));
                        judge(name, &[x, y], spec, got, "function-pointer", &mut acc);
                    }
                }
            }
        }
    }
    // float -> integer casts at the boundaries of the integer type (C17: never a panic)
    if let Some(cast) = ops.iter().find(|o| o.repr() == "to_int").and_then(|o| o.unary().ok()) {
        let two = 2f64;
        let mut fl: Vec<f64> = vec![f64::NAN, f64::INFINITY, f64::NEG_INFINITY, 0.0, -0.0, 0.5, -0.5, 1e300, -1e300];
        for e in [bits - 1, bits, bits - 2, 24, 31, 32, 53, 63, 64] {
            let p = two.powi(e as i32);
            for q in [p, -p, p + 1.0, -p - 1.0, p - 1.0, -p + 1.0, p * (1.0 + f64::EPSILON), -p * (1.0 + f64::EPSILON), p * (1.0 - f64::EPSILON / 2.0), -p * (1.0 - f64::EPSILON / 2.0)] {
                fl.push(q);
            }
        }
        for x in fl {
            acc.evaluations += 1;
            acc.states += 1;
            acc.transitions += 1;
            let t = x.trunc();
            let exact_fits = x.is_finite() && t >= -(two.powi(bits as i32 - 1)) && t < two.powi(bits as i32 - 1);
            match guard(|| cast(Val::<I, f64>::Float(x))) {
                Err(p) => {
                    if which == Which::C17 {
                        acc.violate(Violation { signature: format!("panic:{tname}:to_int:{}", panic_site(&p)), what: format!("ValOpsFactory::<{tname},f64> to_int panicked on Float({x:e}): {p}"), case: json!({"engine": "val-op", "op": "to_int", "args": [format!("{x:e}")]}) });
                    }
                }
                Ok(v) => {
                    acc.nontrivial += 1;
                    if !exact_fits && !matches!(v, Val::Error(_)) {
                        acc.violate(Violation { signature: format!("missing-error:{tname}:to_int"), what: format!("{tname}: to_int(Float({x:e})) = {v:?}, but the value is not representable: must be an error value"), case: json!({"engine": "val-op", "op": "to_int", "args": [format!("{x:e}")]}) });
                    }
                    if exact_fits && which == Which::C16 {
                        let want = format!("{}", t as i128);
                        if !matches!(&v, Val::Int(i) if i.to_string() == want) {
                            acc.violate(Violation { signature: format!("wrong-result:{tname}:to_int"), what: format!("{tname}: to_int(Float({x:e})) = {v:?} instead of Int({want})"), case: json!({"engine": "val-op", "op": "to_int", "args": [format!("{x:e}")]}) });
                        }
                    }
                }
            }
        }
    }
    // component access: array lengths around the largest value of narrow integer types
    if let Some(comp) = ops.iter().find(|o| o.repr() == ".").and_then(|o| o.bin().ok()) {
        for len in [0usize, 1, 3, 126, 127, 128, 129, 300] {
            let arr: smallvec::SmallVec<[f64; 4]> = (0..len).map(|k| k as f64 + 0.5).collect();
            for idx in [-1i64, 0, 1, 2, 125, 126, 127, len as i64 - 1, len as i64] {
                let bi = BigInt::from(idx);
                if !fits(&bi, bits) {
                    continue;
                }
                acc.evaluations += 1;
                acc.states += 1;
                acc.transitions += 1;
                let len_fits = fits(&BigInt::from(len as i64), bits);
                match guard(|| (comp.apply)(Val::<I, f64>::Array(arr.clone()), Val::Int(to_i(&bi)))) {
                    Err(p) => {
                        if which == Which::C17 {
                            acc.violate(Violation { signature: format!("panic:{tname}:.:{}", panic_site(&p)), what: format!("ValOpsFactory::<{tname},f64> component access panicked on an array of {len} elements, index {idx}: {p}"), case: json!({"engine": "val-op", "op": ".", "args": [format!("array of {len}"), idx.to_string()]}) });
                        }
                    }
                    Ok(v) => {
                        acc.nontrivial += 1;
                        let in_range = idx >= 0 && (idx as usize) < len;
                        if !in_range && !matches!(v, Val::Error(_)) {
                            acc.violate(Violation { signature: format!("missing-error:{tname}:."), what: format!("{tname}: component {idx} of an array of {len} elements = {v:?}: must be an error value"), case: json!({"engine": "val-op", "op": "."}) });
                        }
                        // (an array longer than the largest integer of the type: error or the component)
                        if in_range && len_fits && which == Which::C16 && !matches!(&v, Val::Float(f) if *f == idx as f64 + 0.5) {
                            acc.violate(Violation { signature: format!("wrong-result:{tname}:."), what: format!("{tname}: component {idx} of an array of {len} elements = {v:?} instead of Float({})", idx as f64 + 0.5), case: json!({"engine": "val-op", "op": "."}) });
                        }
                    }
                }
            }
        }
    }
    rep.absorb(acc);
    rep.bounds.push(format!("ValOpsFactory::<{tname},f64>: integer operators - abs fact + - * / % ^ << >> x {} boundary integers (all ordered pairs) against exact integer arithmetic, to_int at the type's boundaries: complete", cat.len()));
}

pub fn run(which: Which, tier: Tier) -> i32 {
    let mut rep = Report::new(if which == Which::C16 { "C16" } else { "C17" }, tier);
    rep.rule = "every operator of ValOpsFactory::<i32,f64> x the full operand catalogue (all ordered pairs for binary operators), three routes: function pointer, variables at evaluation time, literal spellings folded at parse time; oracle: independent three-valued reference interpreter of the documented rules (exact / must-be-error / unspecified); C16 adds all trees of the listed sizes over the real value table; distinct = operator applications resp. trees; non-trivial = the reference specifies the outcome".into();
    rep.assumptions = vec![
        "where the documentation is silent (e.g. logical operators on non-booleans, `!=` on mismatched kinds, elementary functions on integers) only totality is required".into(),
        "catalogue literals for the tree part are chosen such that regrouping of really-AC operators is exact".into(),
    ];
    op_sweep(which, tier, &mut rep);
    width_sweep::<i8>(which, 8, &mut rep);
    width_sweep::<i16>(which, 16, &mut rep);
    width_sweep::<i64>(which, 64, &mut rep);
    width_sweep::<i128>(which, 128, &mut rep);
    if which == Which::C16 {
        tree_part(tier, &mut rep);
    } else {
        totality_i64_f32(&mut rep);
    }
    rep.finish()
}
