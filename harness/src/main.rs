//! verif - model-checking harness for exmex (see /verif/DESIGN.md)
mod c01;
mod c02;
mod c03;
mod c04;
mod c05;
mod numty;
mod c06;
mod sweep;
mod c07;
mod langs;
mod c08;
mod c09;
mod derived;
mod c10;
mod c11;
mod c12;
mod hist;
mod c13;
mod c14;
mod c15;
mod c16;
mod c18;
mod c19;
mod c20;
mod sched;
mod valref;
mod strsweep;
mod common;
mod enumr;
mod report;
mod slots;
mod spec;
mod sym;
mod treecheck;

use report::Tier;

fn usage() -> ! {
    eprintln!("usage: verif check <ID> --tier quick|thorough | verif replay <file>");
    std::process::exit(2)
}

fn main() {
    // threads spawned by libraries (stateright's checker threads) take the default stack size:
    // exmex' differentiation needs 60-70 kB per nesting level (finding R2), so give them room
    // (read once by std, before the first thread is spawned)
    if std::env::var_os("RUST_MIN_STACK").is_none() {
        std::env::set_var("RUST_MIN_STACK", (256usize << 20).to_string());
    }
    let mut args: Vec<String> = std::env::args().collect();
    if args.len() < 3 {
        usage();
    }
    common::install_panic_hook();
    match args[1].as_str() {
        "check" => {
            let id = args[2].as_str();
            let tier = match args.iter().position(|a| a == "--tier").and_then(|i| args.get(i + 1)).map(|s| s.as_str()) {
                Some("thorough") => Tier::Thorough,
                Some("quick") | None => Tier::Quick,
                _ => usage(),
            };
            let rc = match id {
                "C01" => c01::run(tier),
                "C02" => c02::run(tier),
                "C03" => c03::run(tier),
                "C04" => c04::run(tier),
                "C05" => c05::run(tier),
                "C06" => c06::run(tier),
                "C07" => c07::run(tier),
                "C08" => c08::run(tier),
                "C09" => c09::run(tier),
                "C10" => c10::run(tier),
                "C11" => c11::run(tier),
                "C12" => c12::run(tier),
                "C13" => c13::run(tier),
                "C14" => c14::run(tier),
                "C15" => c15::run(tier),
                "C16" => c16::run(c16::Which::C16, tier),
                "C17" => c16::run(c16::Which::C17, tier),
                "C18" => c18::run(tier),
                "C19" => c19::run(tier),
                "C20" => c20::run(tier),
                _ => {
                    eprintln!("unknown property {id}");
                    2
                }
            };
            std::process::exit(rc);
        }
        "c20-replay" => {
            while args.len() < 4 {
                args.push(String::new());
            }
            std::process::exit(c20::fresh_replay_main(&args));
        }
        "worker" => {
            let rc = match args[2].as_str() {
                "C06" => sweep::worker_main(&args, c06::families),
                _ => 2,
            };
            std::process::exit(rc);
        }
        "replay" => {
            let text = std::fs::read_to_string(&args[2]).expect("read replay file");
            let v: serde_json::Value = serde_json::from_str(&text).expect("replay json");
            println!("replay of {}: {}", v["property"], v["signature"]);
            let case = &v["case"];
            let rc = match case["engine"].as_str().unwrap_or("") {
                "tree-text" => treecheck::replay_text_case(case),
                "diff-text" => c02::replay_diff_case(case),
                "c03-extra" => c03::replay_extra(case),
                "c07" => c07::replay(case),
                "c13-f64" => c13::replay_f64(case),
                "c15" => c15::replay(case),
                "c04" => c04::replay(case),
                "c05" => c05::replay(case),
                "c09" => c09::replay(case),
                "c10-helper" => c10::replay_helper(case),
                "c19" => {
                    let _ = report::RERUN_SIGNATURE.set(v["signature"].as_str().unwrap_or("").to_string());
                    println!("re-running the quick catalogue of C19 ...");
                    c19::run(Tier::Quick)
                }
                "c10" | "c11" | "c12" | "derived" => hist::replay_by_search(v["property"].as_str().unwrap_or(""), case),
                "c20" => c20::replay(case),
                "c18" => c18::replay(case),
                "val-tree" => c16::replay_tree(case),
                "val-op" => c16::replay_op(case),
                "c06-text" => c06::replay_text(case),
                "sweep" => match case["prop"].as_str() {
                    Some("C06") => sweep::replay(case, c06::families),
                    _ => 2,
                },
                e => {
                    eprintln!("unknown replay engine {e}");
                    2
                }
            };
            std::process::exit(rc);
        }
        _ => usage(),
    }
}
