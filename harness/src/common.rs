//! Shared helpers: panic capture, library pipelines on the symbolic type, tables, shrinking.
use crate::spec::{LitKind, Renderer, Tree};
use crate::sym::*;
use exmex::prelude::*;
use exmex::{DeepEx, Express};
use std::cell::RefCell;
use std::panic::{catch_unwind, AssertUnwindSafe};
use std::sync::Arc;

thread_local! {
    static LAST_PANIC: RefCell<String> = const { RefCell::new(String::new()) };
}

pub fn install_panic_hook() {
    std::panic::set_hook(Box::new(|info| {
        let loc = info.location().map(|l| format!("{}:{}", l.file(), l.line())).unwrap_or_default();
        let msg = info
            .payload()
            .downcast_ref::<String>()
            .cloned()
            .or_else(|| info.payload().downcast_ref::<&str>().map(|s| s.to_string()))
            .unwrap_or_else(|| "<non-string panic>".into());
        LAST_PANIC.with(|p| *p.borrow_mut() = format!("{loc}: {msg}"));
        if std::env::var("VERIF_SHOW_PANICS").is_ok() || loc.contains("/verif/harness") {
            eprintln!("panic at {loc}: {msg}");
        }
    }));
}

/// run `f`, turning a panic into Err(location: message)
pub fn guard<T>(f: impl FnOnce() -> T) -> Result<T, String> {
    match catch_unwind(AssertUnwindSafe(f)) {
        Ok(v) => Ok(v),
        Err(_) => Err(LAST_PANIC.with(|p| p.borrow().clone())),
    }
}

/// shorten a panic text to its call site (file:line + first words), the signature of a crash
pub fn panic_site(p: &str) -> String {
    let mut s: String = p.chars().take(120).collect();
    // drop concrete numbers/values from the message so that one call site = one signature
    s = s.chars().map(|c| if c.is_ascii_digit() { '#' } else { c }).collect();
    // but keep the location digits: recompute from the original prefix up to the first ": "
    if let Some(i) = p.find(": ") {
        let loc = &p[..i];
        let rest: String = p[i..].chars().take(80).map(|c| if c.is_ascii_digit() { '#' } else { c }).collect();
        return format!("{loc}{rest}");
    }
    s
}

#[derive(Clone, Debug, PartialEq)]
pub enum Out {
    /// variable names and the symbolic value at Var(0..n)
    Val(Vec<String>, Sym),
    Err(String),
    Panic(String),
}
impl Out {
    pub fn short(&self, t: &Table) -> String {
        match self {
            Out::Val(v, s) => format!("vars={v:?} value={}", show(s, t)),
            Out::Err(e) => format!("Err({})", e.chars().take(100).collect::<String>()),
            Out::Panic(p) => format!("PANIC({})", p.chars().take(160).collect::<String>()),
        }
    }
}

pub fn var_syms(n: usize) -> Vec<Sym> {
    (0..n as u32).map(Sym::Var).collect()
}

fn eval_any<'a, E: Express<'a, Sym>>(e: &E) -> Out {
    let names: Vec<String> = e.var_names().to_vec();
    let vals = var_syms(names.len());
    match e.eval(&vals) {
        Ok(v) => Out::Val(names, v),
        Err(e) => Out::Err(format!("eval: {}", e.msg())),
    }
}

/// the library pipelines compared by C01/C02/C03 (notation of DESIGN.md §3)
#[derive(Clone, Copy, Debug, PartialEq, Eq, PartialOrd, Ord)]
pub enum Pipe {
    /// FlatEx::parse
    P,
    /// FlatEx::parse_wo_compile
    W,
    /// parse + compile() again
    P2,
    /// parse_wo_compile + compile() twice
    W3,
    /// DeepEx::parse
    D,
    /// parse -> to_deepex
    PD,
    /// parse_wo_compile -> to_deepex
    WD,
    /// DeepEx::parse -> FlatEx::from_deepex
    DF,
    /// parse -> to_deepex -> from_deepex
    PDF,
    /// DeepEx::parse -> from_deepex -> to_deepex -> from_deepex
    DFDF,
}
pub const ALL_PIPES: [Pipe; 9] = [Pipe::P, Pipe::W, Pipe::P2, Pipe::W3, Pipe::D, Pipe::PD, Pipe::WD, Pipe::DF, Pipe::PDF];

pub fn run_pipe(p: Pipe, text: &str) -> Out {
    let r = guard(|| -> Out {
        macro_rules! tryo {
            ($e:expr, $what:expr) => {
                match $e {
                    Ok(v) => v,
                    Err(e) => return Out::Err(format!("{}: {}", $what, e.msg())),
                }
            };
        }
        match p {
            Pipe::P => eval_any(&tryo!(SFlat::parse(text), "parse")),
            Pipe::W => eval_any(&tryo!(SFlat::parse_wo_compile(text), "parse_wo_compile")),
            Pipe::P2 => {
                let mut e = tryo!(SFlat::parse(text), "parse");
                e.compile();
                eval_any(&e)
            }
            Pipe::W3 => {
                let mut e = tryo!(SFlat::parse_wo_compile(text), "parse_wo_compile");
                e.compile();
                e.compile();
                eval_any(&e)
            }
            Pipe::D => eval_any(&tryo!(SDeep::parse(text), "deep parse")),
            Pipe::PD => {
                let e = tryo!(SFlat::parse(text), "parse");
                eval_any(&tryo!(e.to_deepex(), "to_deepex"))
            }
            Pipe::WD => {
                let e = tryo!(SFlat::parse_wo_compile(text), "parse_wo_compile");
                eval_any(&tryo!(e.to_deepex(), "to_deepex"))
            }
            Pipe::DF => {
                let d = tryo!(SDeep::parse(text), "deep parse");
                eval_any(&tryo!(SFlat::from_deepex(d), "from_deepex"))
            }
            Pipe::PDF => {
                let e = tryo!(SFlat::parse(text), "parse");
                let d = tryo!(e.to_deepex(), "to_deepex");
                eval_any(&tryo!(SFlat::from_deepex(d), "from_deepex"))
            }
            Pipe::DFDF => {
                let d = tryo!(SDeep::parse(text), "deep parse");
                let f = tryo!(SFlat::from_deepex(d), "from_deepex");
                let d = tryo!(f.to_deepex(), "to_deepex");
                eval_any(&tryo!(SFlat::from_deepex(d), "from_deepex (2nd)"))
            }
        }
    });
    match r {
        Ok(o) => o,
        Err(p) => Out::Panic(p),
    }
}

// ---------------------------------------------------------------------------------------------
// tables

/// the universal table of DESIGN.md §2.2: every (level, flag, identity) configuration three
/// operator occurrences can tell apart; `pm` maps the three levels to concrete priorities
pub fn universal_table(pm: [i64; 3]) -> Arc<Table> {
    Table::new(vec![
        OpDesc::bin("*", pm[2], true),    // 0
        OpDesc::bin("&", pm[2], true),    // 1
        OpDesc::bin("/", pm[2], false),   // 2
        OpDesc::bin("%", pm[2], false),   // 3
        OpDesc::bin_un("+", pm[1], true), // 4
        OpDesc::bin_un("-", pm[1], false), // 5
        OpDesc::bin("|", pm[1], true),    // 6
        OpDesc::bin("^", pm[1], false),   // 7
        OpDesc::bin(":", pm[0], true),    // 8
        OpDesc::bin("cm", pm[0], true),   // 9
        OpDesc::bin("<", pm[0], false),   // 10
        OpDesc::bin("nc", pm[0], false),  // 11
        OpDesc::un("f"),                  // 12
        OpDesc::un("g"),                  // 13
        OpDesc::un("!"),                  // 14
        OpDesc::cst("C", 1000),           // 15
        OpDesc::cst("Kc", 1001),          // 16
    ])
}
pub const UT_BINS_ALL: [u16; 12] = [0, 1, 2, 3, 4, 5, 6, 7, 8, 9, 10, 11];
/// one identity per (level, flag) + the sign-like pair
pub const UT_BINS_SMALL: [u16; 8] = [0, 2, 4, 5, 6, 7, 8, 10];
pub const UT_UNS_ALL: [u16; 5] = [4, 5, 12, 13, 14];
pub const UT_UNS_SMALL: [u16; 2] = [5, 12];
pub const PRIO_MAPS: [[i64; 3]; 4] = [[0, 1, 2], [0, 50, 99], [97, 98, 99], [0, 49, 50]];

pub fn leaves_std() -> Vec<Tree> {
    vec![Tree::lit(1), Tree::lit(2), Tree::var("x"), Tree::var("y")]
}
pub fn leaves_with_const() -> Vec<Tree> {
    vec![Tree::lit(1), Tree::lit(2), Tree::var("x"), Tree::var("y"), Tree::Const(15)]
}

// ---------------------------------------------------------------------------------------------
// shrinking and canonical signatures

/// greedy reduction of a failing tree: hoist a child over its parent or replace a subtree by a
/// leaf while `fails` keeps holding.  Deterministic.
pub fn shrink_tree(tree: &Tree, fails: &dyn Fn(&Tree) -> bool) -> Tree {
    let mut cur = tree.clone();
    let leafs = [Tree::lit(1), Tree::var("x")];
    let mut budget = 400;
    'outer: loop {
        let n = cur.n_nodes();
        for idx in 0..n {
            let subs = cur.subtrees();
            let sub = subs[idx].clone();
            let mut cands: Vec<Tree> = Vec::new();
            match &sub {
                Tree::Un(_, a) => cands.push((**a).clone()),
                Tree::Bin(_, a, b) => {
                    cands.push((**a).clone());
                    cands.push((**b).clone());
                }
                _ => {}
            }
            if sub.has_op() {
                cands.extend(leafs.iter().cloned());
            }
            for c in cands {
                if c == sub {
                    continue;
                }
                let cand = cur.replace_at(idx, &c);
                budget -= 1;
                if budget <= 0 {
                    break 'outer;
                }
                if cand.n_nodes() < cur.n_nodes() && fails(&cand) {
                    cur = cand;
                    continue 'outer;
                }
            }
        }
        break;
    }
    // canonical leaves: a literal wherever the failure does not need anything else
    let n = cur.n_nodes();
    for idx in 0..n {
        let subs = cur.subtrees();
        let sub = subs[idx].clone();
        if sub.has_op() || sub == leafs[0] {
            continue;
        }
        let cand = cur.replace_at(idx, &leafs[0]);
        if fails(&cand) {
            cur = cand;
        } else if sub != leafs[1] {
            let cand = cur.replace_at(idx, &leafs[1]);
            if fails(&cand) {
                cur = cand;
            }
        }
    }
    cur
}

/// canonical text of a tree: operators renamed by (priority rank, commutative flag, identity,
/// unary-ness), literals and variables by first occurrence
pub fn canon_tree(tree: &Tree, t: &Table) -> String {
    let mut prios: Vec<i64> = Vec::new();
    fn collect(tr: &Tree, t: &Table, prios: &mut Vec<i64>) {
        match tr {
            Tree::Bin(k, a, b) => {
                let p = t.prio(*k);
                if !prios.contains(&p) {
                    prios.push(p);
                }
                collect(a, t, prios);
                collect(b, t, prios);
            }
            Tree::Un(_, a) => collect(a, t, prios),
            _ => {}
        }
    }
    collect(tree, t, &mut prios);
    prios.sort();
    let mut ids: Vec<(String, u16)> = Vec::new();
    let mut lits: Vec<String> = Vec::new();
    let mut vars: Vec<String> = Vec::new();
    fn go(tr: &Tree, t: &Table, prios: &[i64], ids: &mut Vec<(String, u16)>, lits: &mut Vec<String>, vars: &mut Vec<String>) -> String {
        match tr {
            Tree::Lit(s) => {
                let i = lits.iter().position(|x| x == s).unwrap_or_else(|| {
                    lits.push(s.clone());
                    lits.len() - 1
                });
                format!("L{}", i + 1)
            }
            Tree::Const(_) => "CONST".into(),
            Tree::Var(v) => {
                let i = vars.iter().position(|x| x == v).unwrap_or_else(|| {
                    vars.push(v.clone());
                    vars.len() - 1
                });
                format!("V{}", i + 1)
            }
            Tree::Un(k, a) => {
                let o = &t.ops[*k as usize];
                let class = if o.bin.is_some() { "sign".to_string() } else { "fn".to_string() };
                let n = ids.iter().filter(|(c, _)| *c == class).count();
                let i = match ids.iter().filter(|(c, _)| *c == class).position(|(_, kk)| kk == k) {
                    Some(i) => i,
                    None => {
                        ids.push((class.clone(), *k));
                        n
                    }
                };
                format!("{class}{i}[{}]", go(a, t, prios, ids, lits, vars))
            }
            Tree::Bin(k, a, b) => {
                let o = &t.ops[*k as usize];
                let (p, c) = o.bin.unwrap();
                let rank = prios.iter().position(|x| *x == p).unwrap();
                let class = format!("p{rank}{}{}", if c { "c" } else { "n" }, if o.unary { "s" } else { "" });
                let l = go(a, t, prios, ids, lits, vars);
                let n = ids.iter().filter(|(c, _)| *c == class).count();
                let i = match ids.iter().filter(|(c, _)| *c == class).position(|(_, kk)| kk == k) {
                    Some(i) => i,
                    None => {
                        ids.push((class.clone(), *k));
                        n
                    }
                };
                let r = go(b, t, prios, ids, lits, vars);
                format!("({l} {class}#{i} {r})")
            }
        }
    }
    go(tree, t, &prios, &mut ids, &mut lits, &mut vars)
}

pub fn renderer<'a>(t: &'a Table) -> Renderer<'a> {
    Renderer { t, lk: LitKind::Sym }
}

/// FlatEx / DeepEx over f64 with default operators
pub type F64Flat = FlatEx<f64>;
pub type F64Deep<'a> = DeepEx<'a, f64>;

/// "2..=140, 254..=258" for a sorted list of numbers
pub fn ranges_text(v: &[usize]) -> String {
    let mut out: Vec<String> = Vec::new();
    let mut i = 0;
    while i < v.len() {
        let mut j = i;
        while j + 1 < v.len() && v[j + 1] == v[j] + 1 {
            j += 1;
        }
        out.push(if j > i { format!("{}..={}", v[i], v[j]) } else { v[i].to_string() });
        i = j + 1;
    }
    out.join(", ")
}
