//! C14 - operands are tracked correctly for every application order and size.
use crate::common::*;
use crate::enumr::*;
use crate::report::*;
use crate::spec::{self, LitKind, SpecResult};
use crate::sym::*;
use crate::treecheck::judge;
use serde_json::json;
use std::sync::Arc;

fn vname(i: usize) -> String {
    format!("v{i:03}")
}
fn chain_text(ops: &[&str]) -> String {
    let mut s = String::with_capacity(ops.len() * 10);
    s.push_str(&vname(0));
    for (i, o) in ops.iter().enumerate() {
        s.push(' ');
        s.push_str(o);
        s.push(' ');
        s.push_str(&vname(i + 1));
    }
    s
}

/// operand modes: 0 = distinct variables, 1 = three variables in rotation (fewer variables than
/// operands), 2 = literals and one variable alternating, 3 = one variable everywhere
fn chain_text_mode(ops: &[&str], mode: usize) -> String {
    let operand = |i: usize| -> String {
        match mode {
            0 => vname(i),
            1 => ["x", "y", "z"][i % 3].to_string(),
            2 => {
                if i % 2 == 0 {
                    format!("{}", 1 + i % 7)
                } else {
                    "x".to_string()
                }
            }
            _ => "x".to_string(),
        }
    };
    let mut s = String::with_capacity(ops.len() * 10);
    s.push_str(&operand(0));
    for (i, o) in ops.iter().enumerate() {
        s.push(' ');
        s.push_str(o);
        s.push(' ');
        s.push_str(&operand(i + 1));
    }
    s
}

const PIPES: [Pipe; 5] = [Pipe::P, Pipe::W, Pipe::D, Pipe::PD, Pipe::DF];

fn check_chain(text: &str, table: &Table, what: &str, acc: &mut Acc) {
    check_chain_p(text, table, what, acc, &PIPES)
}
const PIPES3: [Pipe; 3] = [Pipe::P, Pipe::D, Pipe::PD];
fn check_chain3(text: &str, table: &Table, what: &str, acc: &mut Acc) {
    check_chain_p(text, table, what, acc, &PIPES3)
}
fn check_chain_p(text: &str, table: &Table, what: &str, acc: &mut Acc, pipes: &[Pipe]) {
    let tree = match spec::read(text, table, LitKind::Sym) {
        SpecResult::Ok(t) => t,
        o => {
            println!("MACHINERY-FAILURE property=C14 chain not well-formed for the reference: {o:?}");
            std::process::exit(2);
        }
    };
    acc.states += 1;
    acc.nontrivial += 1;
    acc.evaluations += 1;
    for &p in pipes {
        acc.transitions += 1;
        if let Some((e, o)) = judge(p, &tree, text, table) {
            let cut = |s: &str| s.chars().take(240).collect::<String>();
            acc.violate(Violation {
                signature: format!("{p:?}:{what}"),
                what: format!("{what} pipeline {p:?}: expected {} observed {}", cut(&e), cut(&o)),
                case: json!({"engine": "tree-text", "table": table.describe(), "text": text, "pipe": format!("{p:?}")}),
            });
        }
    }
}

/// k binary operators with priorities 1..=k (non-commutative), alphabetic names
fn perm_table(k: usize) -> (Arc<Table>, Vec<&'static str>) {
    let names: Vec<&'static str> = (0..k).map(|i| intern(&format!("q{}", (b'a' + i as u8) as char))).collect();
    let t = Table::new(names.iter().enumerate().map(|(i, n)| OpDesc::bin(n, i as i64 + 1, false)).collect());
    (t, names)
}

/// (a) all k! application orders
fn all_orders(k: usize, rep: &mut Report) {
    let (table, names) = perm_table(k);
    let perms = permutations(k);
    let accs = par_ranges(
        perms.len() as u64,
        64,
        || {
            install_panic_hook();
            set_table(&table);
        },
        |st, en, acc| {
            for i in st..en {
                let order = &perms[i as usize]; // order[j] = position applied j-th
                let mut ops = vec![""; k];
                for (j, &pos) in order.iter().enumerate() {
                    ops[pos] = names[k - 1 - j]; // highest priority first
                }
                let text = chain_text(&ops);
                check_chain(&text, &table, &format!("order-{k}-ops"), acc);
                if i % 997 == 0 {
                    acc.sample(json!({"order": order, "text": text}));
                }
                if order.windows(2).any(|w| w[0] > w[1]) {
                    acc.count("chains_whose_order_differs_from_left_to_right", 1);
                }
            }
        },
    );
    for a in accs {
        rep.absorb(a);
    }
    eprintln!("  orders k={k}: t={:.1}s", rep.elapsed());
    rep.bounds.push(format!("all {k}! = {} application orders of a chain with {} operands, pipes {:?}: complete", perms.len(), k + 1, PIPES));
}

fn three_level_table() -> Arc<Table> {
    Table::new(vec![OpDesc::bin("/", 3, false), OpDesc::bin("%", 2, false), OpDesc::bin("<", 1, false)])
}

/// (b) every tracker situation (operator index i, consumed run of length l ending at operand i,
/// consumed run of length r starting at operand i+2) at length n
fn tracker_situations(n: usize, rs: &[usize], step: usize, rep: &mut Report) {
    let table = three_level_table();
    let mut sits = Vec::new();
    let n_ops = n - 1;
    for i in 0..n_ops {
        for l in 0..=i {
            if step > 1 && !(l % step == 0 || l == i || (62..=66).contains(&l) || (126..=130).contains(&l) || (190..=194).contains(&l) || l <= 2) {
                continue;
            }
            for &r in rs {
                if i + 1 + r <= n_ops {
                    sits.push((i, l, r));
                }
            }
        }
    }
    let accs = par_ranges(
        sits.len() as u64,
        16,
        || {
            install_panic_hook();
            set_table(&table);
        },
        |st, en, acc| {
            for k in st..en {
                let (i, l, r) = sits[k as usize];
                let mut ops = vec!["<"; n_ops];
                for p in (i - l)..i {
                    ops[p] = "/";
                }
                ops[i] = "%";
                for p in (i + 1)..(i + 1 + r).min(n_ops) {
                    ops[p] = "/";
                }
                let text = chain_text(&ops);
                check_chain3(&text, &table, &format!("tracker-situation-n{n}"), acc);
                if k % 5003 == 0 {
                    acc.sample(json!({"n_operands": n, "op_index": i, "consumed_run_left": l, "consumed_run_right_of_next": r}));
                }
            }
        },
    );
    for a in accs {
        rep.absorb(a);
    }
    eprintln!("  tracker n={n}: t={:.1}s", rep.elapsed());
    rep.bounds.push(format!("length {n}: {} tracker situations (op index, left run, right run in {:?}, left-run step {step}): complete", sits.len(), rs));
}

/// (c) all 7! orders of a 7-operator window straddling a word boundary
fn boundary_windows(n: usize, boundary: usize, rep: &mut Report) {
    let mut ops_desc: Vec<OpDesc> = (0..7).map(|i| OpDesc::bin(intern(&format!("w{}", (b'a' + i as u8) as char)), 10 + i as i64, false)).collect();
    ops_desc.push(OpDesc::bin("hi", 30, false));
    ops_desc.push(OpDesc::bin("lo", 1, false));
    let table = Table::new(ops_desc);
    let perms = permutations(7);
    let n_ops = n - 1;
    let w0 = boundary - 4; // operators w0..w0+6 touch operands boundary-4 ..= boundary+3
    let accs = par_ranges(
        perms.len() as u64 * 2,
        16,
        || {
            install_panic_hook();
            set_table(&table);
        },
        |st, en, acc| {
            for k in st..en {
                let perm = &perms[(k / 2) as usize];
                let rest = if k % 2 == 0 { "hi" } else { "lo" };
                let mut ops = vec![rest; n_ops];
                for (j, &pos) in perm.iter().enumerate() {
                    ops[w0 + pos] = table.ops[6 - j].name;
                }
                let text = chain_text(&ops);
                check_chain3(&text, &table, &format!("window-at-{boundary}-n{n}"), acc);
            }
        },
    );
    for a in accs {
        rep.absorb(a);
    }
    eprintln!("  window n={n}: t={:.1}s", rep.elapsed());
    rep.bounds.push(format!("length {n}: all 7! orders of the operator window around operand {boundary}, rest of the chain first/last: complete"));
}

/// (d) structured orders at every length
fn structured_orders(lens: Vec<usize>, rep: &mut Report) {
    let k = lens.iter().copied().max().unwrap_or(2);
    let names: Vec<&'static str> = (0..k).map(|i| intern(&format!("q{i:03}"))).collect();
    let table = Table::new(names.iter().enumerate().map(|(i, n)| OpDesc::bin(n, i as i64, false)).collect());
    let accs = par_ranges(
        lens.len() as u64,
        1,
        || {
            install_panic_hook();
            set_table(&table);
        },
        |st, en, acc| {
            for li in st..en {
                let n = lens[li as usize];
                let m = n - 1;
                let orders: Vec<(&str, Vec<usize>)> = vec![
                    ("ascending", (0..m).collect()),
                    ("descending", (0..m).rev().collect()),
                    ("evens-then-odds", (0..m).step_by(2).chain((1..m).step_by(2)).collect()),
                    ("odds-then-evens", (1..m).step_by(2).chain((0..m).step_by(2)).collect()),
                    ("inside-out", {
                        let mut v = Vec::new();
                        let mid = m / 2;
                        for d in 0..=m {
                            if mid + d < m {
                                v.push(mid + d);
                            }
                            if d > 0 && mid >= d {
                                v.push(mid - d);
                            }
                        }
                        v
                    }),
                    ("outside-in", {
                        let mut v = Vec::new();
                        let (mut a, mut b) = (0usize, m);
                        while a < b {
                            v.push(a);
                            a += 1;
                            if a < b {
                                b -= 1;
                                v.push(b);
                            }
                        }
                        v
                    }),
                    ("blocks-of-64-reversed", {
                        let mut v: Vec<usize> = Vec::new();
                        let mut blocks: Vec<Vec<usize>> = (0..m).collect::<Vec<_>>().chunks(64).map(|c| c.to_vec()).collect();
                        blocks.reverse();
                        for b in blocks {
                            v.extend(b);
                        }
                        v
                    }),
                ];
                for (oname, order) in orders {
                    debug_assert_eq!(order.len(), m);
                    let mut ops = vec![""; m];
                    for (j, &pos) in order.iter().enumerate() {
                        ops[pos] = names[m - 1 - j];
                    }
                    for mode in 0..4 {
                        let text = chain_text_mode(&ops, mode);
                        check_chain3(&text, &table, &format!("structured-{oname}-operands{mode}-n{n}"), acc);
                    }
                }
            }
        },
    );
    for a in accs {
        rep.absorb(a);
    }
    eprintln!("  structured: t={:.1}s", rep.elapsed());
    rep.bounds.push(format!("7 structured orders (ascending, descending, evens/odds, inside-out, outside-in, reversed 64-blocks) at the lengths {}, each with 4 operand modes (distinct variables, 3 variables in rotation, literals alternating with a variable, one variable): complete", crate::common::ranges_text(&lens)));
}

/// (e) chains beyond the inline capacity of the multi-word tracker (32 words = 2048 operands)
fn very_long_chains(tier: Tier, rep: &mut Report) {
    let table = three_level_table();
    let lens: Vec<usize> = if tier.thorough() { vec![2040, 2047, 2048, 2049, 2050, 2112, 2113, 4095, 4096, 4097] } else { vec![2047, 2048, 2049, 2113] };
    let mut cases: Vec<(usize, Vec<&'static str>, String)> = Vec::new();
    for &n in &lens {
        let m = n - 1;
        cases.push((n, vec!["/"; m], "single-operator".into()));
        cases.push((n, (0..m).map(|i| ["<", "%", "/"][i % 3]).collect(), "cycle-up".into()));
        cases.push((n, (0..m).map(|i| ["/", "%", "<"][i % 3]).collect(), "cycle-down".into()));
        cases.push((n, (0..m).map(|i| if i % 64 == 63 { "<" } else { "/" }).collect(), "word-blocks".into()));
        // tracker situations around the ends and around the 2048 boundary
        for &i in &[m / 2, 2046usize.min(m - 1), 2047usize.min(m - 1), 2048usize.min(m - 1), m - 1] {
            for &l in &[0usize, 1, 63, 64, 65, 1000, 2047, 2048] {
                if l > i {
                    continue;
                }
                let mut ops = vec!["<"; m];
                for p in (i - l)..i {
                    ops[p] = "/";
                }
                ops[i] = "%";
                cases.push((n, ops, format!("situation-i{i}-l{l}")));
            }
        }
    }
    let pipes = [Pipe::P, Pipe::W, Pipe::D];
    let accs = par_ranges(
        cases.len() as u64,
        1,
        || {
            install_panic_hook();
            set_table(&table);
        },
        |st, en, acc| {
            for k in st..en {
                let (n, ops, name) = &cases[k as usize];
                // four-digit variable names keep the sorted order = positional order
                let mut text = String::with_capacity(n * 10);
                text.push_str("v0000");
                for (i, o) in ops.iter().enumerate() {
                    text.push(' ');
                    text.push_str(o);
                    text.push_str(&format!(" v{:04}", i + 1));
                }
                check_chain_p(&text, &table, &format!("very-long-{name}-n{n}"), acc, &pipes);
                if k % 17 == 0 {
                    acc.sample(json!({"n_operands": n, "pattern": name}));
                }
            }
        },
    );
    for a in accs {
        rep.absorb(a);
    }
    rep.bounds.push(format!("lengths {lens:?}: {} chains beyond the tracker's inline capacity (2048 operands), pipes {pipes:?}: complete", cases.len()));
}

pub fn run(tier: Tier) -> i32 {
    let mut rep = Report::new("C14", tier);
    rep.rule = "chains v0 o1 v1 ... ok vk of distinct variables (structured orders also with few repeated variables and literals) whose operator priorities impose a chosen application order: all k! orders for small k, every (operator index, consumed-run) tracker situation at lengths around the 64-operand word boundaries, all orders of a 7-operator window across each boundary, structured orders at every length; through flat (word / slice tracker), deep (slice tracker) and to_deepex (own tracker); oracle: the reference parser's tree; every case is distinct and non-trivial".into();
    rep.assumptions = vec!["as C01; in a valid reduction the operand right of an operator can only have been consumed by that operator itself, so tracker situations are characterised by (index, run length left, run right of the next operand)".into()];
    let kmax = if tier.thorough() { 9 } else { 8 };
    for k in 1..=kmax {
        all_orders(k, &mut rep);
    }
    if tier.thorough() {
        // (every left run up to 130 operands; beyond that the cost per length grows cubically:
        // every 4th / 8th left run plus the runs around the word boundaries)
        for n in [33, 63, 64, 65, 66, 127, 128, 129, 130] {
            tracker_situations(n, &[0, 1, 2, 62, 63, 64, 65], 1, &mut rep);
        }
        for n in [191, 192, 193, 194] {
            tracker_situations(n, &[0, 1, 2, 62, 63, 64, 65], 4, &mut rep);
        }
        for n in [255, 256, 257] {
            tracker_situations(n, &[0, 1, 64, 65], 8, &mut rep);
        }
        for (n, b) in [(70, 64), (130, 64), (134, 128), (198, 128), (198, 192), (257, 192)] {
            boundary_windows(n, b, &mut rep);
        }
        // (one operator table per call, sized by the longest chain of the call)
        structured_orders((2..=257).collect(), &mut rep);
        structured_orders((258..=260).chain(510..=514).collect(), &mut rep);
    } else {
        for n in [64, 65, 66] {
            tracker_situations(n, &[0, 1, 64], 1, &mut rep);
        }
        tracker_situations(129, &[0, 1, 64], 8, &mut rep);
        tracker_situations(193, &[0, 64], 32, &mut rep);
        boundary_windows(70, 64, &mut rep);
        structured_orders((2..=140).collect(), &mut rep);
        structured_orders((254..=258).collect(), &mut rep);
    }
    very_long_chains(tier, &mut rep);
    rep.finish()
}
