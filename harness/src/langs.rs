//! Concrete "languages": operator table + literal rule + the library's parsers for it.
use crate::common::*;
use crate::spec::{LitKind, Tree};
use crate::sym::*;
use exmex::prelude::*;
use exmex::{DeepEx, Express, FloatOpsFactory, MakeOperators, Operator, Val, ValOpsFactory};
use std::fmt::Debug;
use std::sync::Arc;

/// the operator table of a real factory, as the reference model sees it (names, roles,
/// priorities, flags - all public API)
pub fn table_of<T: Clone + Debug>(ops: Vec<Operator<'static, T>>) -> Arc<Table> {
    Table::new(
        ops.iter()
            .map(|o| OpDesc {
                name: intern(o.repr()),
                bin: o.bin().ok().map(|b| (b.prio, b.is_commutative)),
                unary: o.has_unary(),
                constant: o.constant().map(|_| 0),
            })
            .collect(),
    )
}
pub fn f64_table() -> Arc<Table> {
    table_of(FloatOpsFactory::<f64>::make())
}
pub fn val_table() -> Arc<Table> {
    table_of(ValOpsFactory::<i32, f64>::make())
}

/// Ok(true) accepted, Ok(false) rejected with an error value, Err(panic text)
pub type Acceptor = fn(&str) -> Result<bool, String>;

pub struct Lang {
    pub name: &'static str,
    pub table: Arc<Table>,
    pub lk: LitKind,
    pub parsers: Vec<(&'static str, Acceptor)>,
}

pub fn lang_sym(table: Arc<Table>) -> Lang {
    Lang {
        name: "sym",
        table,
        lk: LitKind::Sym,
        parsers: vec![
            ("FlatEx::parse", |t| guard(|| SFlat::parse(t).is_ok())),
            ("FlatEx::parse_wo_compile", |t| guard(|| SFlat::parse_wo_compile(t).is_ok())),
            ("DeepEx::parse", |t| guard(|| SDeep::parse(t).is_ok())),
        ],
    }
}
pub fn lang_f64() -> Lang {
    Lang {
        name: "f64",
        table: f64_table(),
        lk: LitKind::Number,
        parsers: vec![
            ("FlatEx::<f64>::parse", |t| guard(|| FlatEx::<f64>::parse(t).is_ok())),
            ("FlatEx::<f64>::parse_wo_compile", |t| guard(|| FlatEx::<f64>::parse_wo_compile(t).is_ok())),
            ("DeepEx::<f64>::parse", |t| guard(|| DeepEx::<f64>::parse(t).is_ok())),
            ("eval_str::<f64>", |t| guard(|| exmex::eval_str::<f64>(t).is_ok())),
            ("FlatEx::<f32>::parse", |t| guard(|| FlatEx::<f32>::parse(t).is_ok())),
        ],
    }
}
pub fn lang_val() -> Lang {
    Lang {
        name: "val",
        table: val_table(),
        lk: LitKind::Val,
        parsers: vec![
            ("parse_val::<i32,f64>", |t| guard(|| exmex::parse_val::<i32, f64>(t).is_ok())),
            ("DeepEx::<Val>::parse", |t| {
                guard(|| DeepEx::<Val<i32, f64>, ValOpsFactory<i32, f64>, exmex::ValMatcher>::parse(t).is_ok())
            }),
        ],
    }
}

/// reference evaluation of a tree over f64 with the documented meaning of the default names
pub fn f64_un(name: &str, a: f64) -> Option<f64> {
    Some(match name {
        "+" => a,
        "-" => -a,
        "abs" => a.abs(),
        "signum" => a.signum(),
        "sin" => a.sin(),
        "cos" => a.cos(),
        "tan" => a.tan(),
        "asin" => a.asin(),
        "acos" => a.acos(),
        "atan" => a.atan(),
        "sinh" => a.sinh(),
        "cosh" => a.cosh(),
        "tanh" => a.tanh(),
        "asinh" => a.asinh(),
        "acosh" => a.acosh(),
        "atanh" => a.atanh(),
        "floor" => a.floor(),
        "round" => a.round(),
        "ceil" => a.ceil(),
        "trunc" => a.trunc(),
        "fract" => a.fract(),
        "exp" => a.exp(),
        "sqrt" => a.sqrt(),
        "cbrt" => a.cbrt(),
        "ln" => a.ln(),
        "log" => a.ln(),
        "log2" => a.log2(),
        "log10" => a.log10(),
        _ => return None,
    })
}
pub fn f64_bin(name: &str, a: f64, b: f64) -> Option<f64> {
    Some(match name {
        "+" => a + b,
        "-" => a - b,
        "*" => a * b,
        "/" => a / b,
        "^" => a.powf(b),
        "atan2" => a.atan2(b),
        "min" => a.min(b),
        "max" => a.max(b),
        _ => return None,
    })
}
pub fn f64_const(name: &str) -> Option<f64> {
    Some(match name {
        "PI" | "π" => std::f64::consts::PI,
        "E" | "e" => std::f64::consts::E,
        "TAU" | "τ" => std::f64::consts::TAU,
        _ => return None,
    })
}
pub fn eval_f64(tree: &Tree, t: &Table, vars: &[String], vals: &[f64]) -> Option<f64> {
    Some(match tree {
        Tree::Lit(s) => s.parse::<f64>().ok()?,
        Tree::Const(k) => f64_const(t.ops[*k as usize].name)?,
        Tree::Var(v) => vals[vars.iter().position(|x| x == v)?],
        Tree::Un(k, a) => f64_un(t.ops[*k as usize].name, eval_f64(a, t, vars, vals)?)?,
        Tree::Bin(k, a, b) => f64_bin(t.ops[*k as usize].name, eval_f64(a, t, vars, vals)?, eval_f64(b, t, vars, vals)?)?,
    })
}
