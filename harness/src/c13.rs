//! C13 - operator names match exactly; numbers, signs and braces tokenise as documented.
use crate::common::*;
use crate::langs::*;
use crate::report::*;
use crate::spec::{self, LitKind, SpecResult};
use crate::strsweep::*;
use crate::sym::*;
use exmex::prelude::*;
use exmex::{DeepEx, Express};
use serde_json::json;
use std::sync::Arc;

struct Family {
    name: &'static str,
    table: Arc<Table>,
    chars: Vec<&'static str>,
    len_quick: usize,
    len_thorough: usize,
}
/// families whose texts are also parsed with a second operator factory (same operators in
/// reverse table order) on the same thread just before: the tokenizer must not carry anything
/// over from one factory to the next
const TWIN_FAMILIES: [&str; 3] = ["c-symbolic-prefixes(<,<=,<<,==,=)", "j-symbolic-binary-prefix-of-unary(+, ++, +-)", "b-log-log2-log10"];

fn families() -> Vec<Family> {
    vec![
        Family {
            name: "a-unary-prefixes(sin,sinh,si)",
            table: Table::new(vec![OpDesc::un("sin"), OpDesc::un("sinh"), OpDesc::un("si"), OpDesc::bin_un("-", 1, false)]),
            chars: vec!["s", "i", "n", "h", "4", "x", " ", "(", ")", "-"],
            len_quick: 7,
            len_thorough: 8,
        },
        Family {
            name: "b-log-log2-log10",
            table: Table::new(vec![OpDesc::un("log"), OpDesc::un("log2"), OpDesc::un("log10"), OpDesc::bin("*", 2, true)]),
            chars: vec!["l", "o", "g", "1", "0", "2", " ", "(", "x", "*"],
            len_quick: 7,
            len_thorough: 8,
        },
        Family {
            name: "c-symbolic-prefixes(<,<=,<<,==,=)",
            table: Table::new(vec![OpDesc::bin("<", 1, false), OpDesc::bin("<=", 1, false), OpDesc::bin("<<", 2, false), OpDesc::bin("==", 0, false), OpDesc::bin("=", 0, false), OpDesc::un("!")]),
            chars: vec!["<", "=", "!", "x", "1", " "],
            len_quick: 8,
            len_thorough: 10,
        },
        Family {
            name: "d-constants(PI,E,e,π)",
            table: Table::new(vec![OpDesc::cst("PI", 31), OpDesc::cst("E", 27), OpDesc::cst("e", 28), OpDesc::cst("π", 32), OpDesc::bin_un("+", 0, true), OpDesc::un("exp")]),
            chars: vec!["P", "I", "E", "e", "5", "x", "π", "+", "p", " "],
            len_quick: 7,
            len_thorough: 8,
        },
        Family {
            name: "e-sign-chains",
            table: Table::new(vec![OpDesc::bin_un("+", 0, true), OpDesc::bin_un("-", 1, false), OpDesc::bin("*", 2, true), OpDesc::un("f")]),
            chars: vec!["+", "-", "x", "1", "(", ")", " ", "*", "f"],
            len_quick: 7,
            len_thorough: 9,
        },
        Family {
            name: "g-braces",
            table: Table::new(vec![OpDesc::bin_un("+", 0, true), OpDesc::un("a")]),
            chars: vec!["{", "}", "a", " ", "+", "1", "b"],
            len_quick: 8,
            len_thorough: 9,
        },
        Family {
            name: "i-binary-name-prefix-of-unary-and-constant(min, minus, minx)",
            table: Table::new(vec![OpDesc::bin("min", 1, false), OpDesc::un("minus"), OpDesc::cst("minx", 41), OpDesc::bin_un("-", 0, false)]),
            chars: vec!["m", "i", "n", "u", "s", "x", "1", " ", "(", ")"],
            len_quick: 7,
            len_thorough: 8,
        },
        Family {
            name: "j-symbolic-binary-prefix-of-unary(+, ++, +-)",
            table: Table::new(vec![OpDesc::bin("+", 1, true), OpDesc::un("++"), OpDesc::un("+-"), OpDesc::bin_un("-", 0, false)]),
            chars: vec!["+", "-", "x", "1", " ", "("],
            len_quick: 8,
            len_thorough: 9,
        },
        Family {
            name: "k-greek-binary-prefix-of-constant(μ, μο, μοι)",
            table: Table::new(vec![OpDesc::bin("μ", 1, false), OpDesc::cst("μο", 42), OpDesc::un("μοι"), OpDesc::bin_un("-", 0, false)]),
            chars: vec!["μ", "ο", "ι", "x", "1", " ", "("],
            len_quick: 7,
            len_thorough: 9,
        },
        Family {
            name: "l-names-with-underscore(to_i unary, N_A constant, t_ unary)",
            table: Table::new(vec![OpDesc::un("to_i"), OpDesc::cst("N_A", 43), OpDesc::un("t_"), OpDesc::bin_un("-", 0, false)]),
            chars: vec!["t", "o", "_", "i", "N", "A", "5", "x", " ", "("],
            len_quick: 7,
            len_thorough: 8,
        },
        Family {
            name: "m-large-table(unary tri and constant KK behind 66 other operators)",
            table: Table::new((0..66).map(|i| OpDesc::bin(intern(&format!("w{i:02}")), 1, false)).chain([OpDesc::un("tri"), OpDesc::cst("KK", 44), OpDesc::bin_un("-", 0, false)]).collect()),
            chars: vec!["t", "r", "i", "K", "x", "1", " ", "(", "-", "p"],
            len_quick: 7,
            len_thorough: 8,
        },
        Family {
            name: "n-very-large-table(binary rt, unary tri and constant KK behind 257 other operators)",
            table: Table::new((0..257).map(|i| OpDesc::bin(intern(&format!("w{i:03}")), 1, false)).chain([OpDesc::bin("rt", 2, false), OpDesc::un("tri"), OpDesc::cst("KK", 44), OpDesc::bin_un("-", 0, false)]).collect()),
            chars: vec!["t", "r", "i", "K", "x", "1", " ", "(", "-"],
            len_quick: 6,
            len_thorough: 7,
        },
        Family {
            name: "o-names-ending-in-a-digit(p2 unary, c0 constant) continued by Greek letters, underscore, digits",
            table: Table::new(vec![OpDesc::un("p2"), OpDesc::cst("c0", 77), OpDesc::bin_un("+", 0, true)]),
            chars: vec!["p", "2", "c", "0", "α", "Ω", "_", "x", " ", "+"],
            len_quick: 6,
            len_thorough: 7,
        },
        Family {
            name: "h-greek(σ unary, π constant)",
            table: Table::new(vec![OpDesc::un("σ"), OpDesc::cst("π", 31), OpDesc::bin_un("+", 0, true), OpDesc::un("σσ")]),
            chars: vec!["π", "σ", "α", "Ω", "a", "2", " ", "+", "_"],
            len_quick: 7,
            len_thorough: 8,
        },
    ]
}

fn judge_sym(text: &str, table: &Table, acc: &mut Acc, fam: &str) {
    match spec::read(text, table, LitKind::Sym) {
        SpecResult::Ok(tree) => {
            acc.states += 1;
            if tree.has_op() {
                acc.nontrivial += 1;
            }
            acc.count("texts_the_reference_reads_as_well_formed", 1);
            for pipe in [Pipe::P, Pipe::W, Pipe::D] {
                acc.transitions += 1;
                if let Some((e, o)) = crate::treecheck::judge(pipe, &tree, text, table) {
                    acc.violate(Violation {
                        signature: format!("{fam}:{pipe:?}:{}", canon_tree(&tree, table)),
                        what: format!("[{fam}] {pipe:?} on {text:?}: reference reads {} = {e}; library: {o}", tree.show(table)),
                        case: json!({"engine": "tree-text", "table": table.describe(), "text": text, "pipe": format!("{pipe:?}")}),
                    });
                }
            }
        }
        SpecResult::MustReject("unknown-token") => {
            acc.count("texts_with_an_unknown_character_sequence", 1);
            for pipe in [Pipe::P, Pipe::D] {
                acc.transitions += 1;
                match run_pipe(pipe, text) {
                    Out::Err(_) => {}
                    o => acc.violate(Violation {
                        signature: format!("{fam}:{pipe:?}:unknown-token-not-rejected"),
                        what: format!("[{fam}] {pipe:?} on {text:?}: contains a character sequence that is no token, library: {}", o.short(table)),
                        case: json!({"engine": "c07", "lang": "sym", "table": table.describe(), "text": text}),
                    }),
                }
            }
        }
        SpecResult::MustReject(_) => acc.count("malformed_for_other_reasons(C07's business, skipped)", 1),
        SpecResult::Unconstrained(w) => acc.count(&format!("unspecified[{w}](skipped)"), 1),
    }
}

/// literal spellings with the default number matcher and the default float table
/// eval_str and exmex::parse are documented as "parse (and evaluate)": on every text they must
/// accept exactly what FlatEx::parse accepts (eval_str: without variables) with the same value
fn entry_point_differential(text: &str, acc: &mut Acc) {
    let same = |a: f64, b: f64| a.to_bits() == b.to_bits() || (a.is_nan() && b.is_nan());
    let flat = guard(|| FlatEx::<f64>::parse(text).ok().map(|f| (f.var_names().len(), if f.var_names().is_empty() { f.eval(&[]).ok() } else { None })));
    let es = guard(|| exmex::eval_str::<f64>(text).ok());
    let ep = guard(|| exmex::parse::<f64>(text).ok().map(|f| f.var_names().len()));
    acc.transitions += 3;
    let bad = match (&flat, &es, &ep) {
        (Err(p), _, _) | (_, Err(p), _) | (_, _, Err(p)) => Some(format!("PANIC {p}")),
        (Ok(fl), Ok(es), Ok(ep)) => {
            let want_es = match fl {
                Some((0, Some(v))) => Some(*v),
                _ => None,
            };
            if fl.map(|x| x.0) != *ep {
                Some(format!("exmex::parse accepts: {:?}, FlatEx::parse accepts: {:?}", ep.is_some(), fl.is_some()))
            } else {
                match (want_es, es) {
                    (Some(a), Some(b)) if same(a, *b) => None,
                    (None, None) => None,
                    (a, b) => Some(format!("eval_str gives {b:?}, FlatEx::parse + eval gives {a:?}")),
                }
            }
        }
    };
    if let Some(b) = bad {
        acc.violate(Violation {
            signature: format!("f-literals:entry-points-differ:{}", b.chars().take(9).collect::<String>()),
            what: format!("[f-literal-spellings] on {text:?}: {b}"),
            case: json!({"engine": "c13-f64", "text": text}),
        });
    }
}

fn judge_f64(text: &str, table: &Table, acc: &mut Acc) {
    entry_point_differential(text, acc);
    match spec::read(text, table, LitKind::Number) {
        SpecResult::Ok(tree) => {
            acc.states += 1;
            if tree.has_op() {
                acc.nontrivial += 1;
            }
            acc.count("texts_the_reference_reads_as_well_formed", 1);
            let vars = tree.vars();
            let vals: Vec<f64> = (0..vars.len()).map(|i| 0.75 + i as f64).collect();
            let expect = eval_f64(&tree, table, &vars, &vals);
            let Some(expect) = expect else { return };
            let lib = guard(|| -> Result<(Vec<String>, f64, f64), String> {
                let f = FlatEx::<f64>::parse(text).map_err(|e| e.msg().to_string())?;
                let d = DeepEx::<f64>::parse(text).map_err(|e| e.msg().to_string())?;
                let a = f.eval(&vals).map_err(|e| e.msg().to_string())?;
                let b = d.eval(&vals).map_err(|e| e.msg().to_string())?;
                Ok((f.var_names().to_vec(), a, b))
            });
            acc.transitions += 2;
            let same = |a: f64, b: f64| a.to_bits() == b.to_bits() || (a.is_nan() && b.is_nan()) || (a - b).abs() <= 1e-12 * a.abs().max(b.abs());
            let bad = match &lib {
                Ok(Ok((n, a, b))) => {
                    if *n != vars {
                        Some(format!("vars {n:?} instead of {vars:?}"))
                    } else if !same(*a, expect) || !same(*b, expect) {
                        Some(format!("value flat={a} deep={b} instead of {expect}"))
                    } else {
                        None
                    }
                }
                Ok(Err(e)) => Some(format!("rejected: {e}")),
                Err(p) => Some(format!("PANIC {p}")),
            };
            if let Some(b) = bad {
                acc.violate(Violation {
                    signature: format!("f-literals:{}", b.split(':').next().unwrap_or("").chars().take(12).collect::<String>()),
                    what: format!("[f-literal-spellings] on {text:?}: reference reads {}; library: {b}", tree.show(table)),
                    case: json!({"engine": "c13-f64", "text": text}),
                });
            }
        }
        SpecResult::MustReject("unknown-token") => {
            acc.count("texts_with_an_unknown_character_sequence", 1);
            acc.transitions += 1;
            if let Ok(true) | Err(_) = guard(|| FlatEx::<f64>::parse(text).is_ok()) {
                acc.violate(Violation {
                    signature: "f-literals:unknown-token-not-rejected".into(),
                    what: format!("[f-literal-spellings] {text:?} is not a number/operator/variable sequence but was not rejected"),
                    case: json!({"engine": "c13-f64", "text": text}),
                });
            }
        }
        SpecResult::MustReject(_) => acc.count("malformed_for_other_reasons(C07's business, skipped)", 1),
        SpecResult::Unconstrained(w) => acc.count(&format!("unspecified[{w}](skipped)"), 1),
    }
}

pub fn replay_f64(case: &serde_json::Value) -> i32 {
    let text = case["text"].as_str().unwrap_or("");
    let t = f64_table();
    let mut acc = Acc::default();
    judge_f64(text, &t, &mut acc);
    println!("reference: {:?}", spec::read(text, &t, LitKind::Number));
    for v in &acc.violations {
        println!("  {}", v.what);
    }
    if acc.violations.is_empty() {
        println!("  => agree");
        0
    } else {
        1
    }
}

pub fn run(tier: Tier) -> i32 {
    let mut rep = Report::new("C13", tier);
    rep.rule = "all character strings up to the length bound over targeted lexical alphabets, per operator-table family (names that are prefixes of each other, constants, sign chains, braces, Greek identifiers, literal spellings); oracle: reference lexer + parser; distinct = texts the reference reads as well-formed; non-trivial = contains an operator".into();
    rep.assumptions = vec!["texts that are malformed for non-lexical reasons, unclosed braces and alphabetic binary operator names continued by identifier characters are unspecified by C13 and skipped (counted)".into()];
    for f in families() {
        let l = if tier.thorough() { f.len_thorough } else { f.len_quick };
        let sw = Sweep { name: f.name, tokens: f.chars.clone(), max_len: l, table: f.table.clone(), sep: "" };
        let table = f.table.clone();
        let name = f.name;
        let twin: Option<Arc<Table>> = if TWIN_FAMILIES.contains(&name) { Some(Table::new(table.ops.iter().rev().cloned().collect())) } else { None };
        sweep_strings(&sw, &mut rep, &|text, _i, acc| {
            if let Some(tw) = &twin {
                set_table_n(1, tw);
                let _ = guard(|| exmex::FlatEx::<Sym, CfgOps<1>, SymMatcher>::parse(text).is_ok());
                acc.transitions += 1;
            }
            judge_sym(text, &table, acc, name);
            if acc.evaluations % 100003 == 7 {
                acc.sample(json!({"family": name, "text": text, "reference": format!("{:?}", spec::read(text, &table, LitKind::Sym))}));
            }
        });
    }
    // literal spellings, default number matcher, real f64 table
    let ft = f64_table();
    let sw = Sweep { name: "f-literal-spellings(f64 default table)", tokens: vec!["0", "1", ".", "x", " ", "+", "e", "-"], max_len: if tier.thorough() { 9 } else { 7 }, table: ft.clone(), sep: "" };
    sweep_strings(&sw, &mut rep, &|text, _i, acc| {
        judge_f64(text, &ft, acc);
        if acc.evaluations % 50021 == 7 {
            acc.sample(json!({"family": "f", "text": text}));
        }
    });
    rep.finish()
}
