//! C11 - substitution replaces variables simultaneously and keeps the rest.
use crate::common::*;
use crate::enumr::*;
use crate::hist::*;
use crate::report::*;
use crate::spec::{self, LitKind, Renderer, SpecResult, Tree};
use crate::sym::*;
use exmex::prelude::*;
use exmex::Express;
use serde_json::{json, Value};
use std::sync::Arc;

fn table() -> Arc<Table> {
    Table::new(vec![
        OpDesc::bin_un("+", 0, true),  // 0
        OpDesc::bin("*", 1, true),     // 1
        OpDesc::bin_un("-", 0, false), // 2
        OpDesc::bin("/", 1, false),    // 3
        OpDesc::un("f"),               // 4
        OpDesc::bin("|", 0, true),     // 5: a second commutative operator on the priority of +
        OpDesc::bin("&", 1, true),     // 6: a second commutative operator on the priority of *
    ])
}

#[derive(Clone, Debug, Hash, PartialEq, Eq)]
pub enum Act {
    /// base index, form (0 = FlatEx::parse, 1 = DeepEx::parse, 2 = FlatEx::parse_wo_compile for base and replacements)
    Init(usize, u8),
    /// replacement choice per current variable (sorted order): 0 = keep, k = pool[k-1]
    Subs(Vec<u8>),
}

#[derive(Clone)]
pub struct SubsModel {
    pub table: Arc<Table>,
    pub bases: Arc<Vec<(&'static str, Tree)>>,
    pub pool: Arc<Vec<(&'static str, Tree)>>,
    pub max_len: usize,
}

fn subst(t: &Tree, map: &dyn Fn(&str) -> Option<Tree>) -> Tree {
    match t {
        Tree::Var(v) => map(v).unwrap_or_else(|| t.clone()),
        Tree::Un(k, a) => Tree::un(*k, subst(a, map)),
        Tree::Bin(k, a, b) => Tree::bin(*k, subst(a, map), subst(b, map)),
        x => x.clone(),
    }
}

impl SubsModel {
    /// replay on the real objects with the reference tree in lock-step
    fn replay(&self, hist: &[Act]) -> (Result<(Vec<String>, Sym, String), String>, Tree, u64) {
        let Act::Init(i, form) = &hist[0] else { unreachable!() };
        let mut reft = self.bases[*i].1.clone();
        let mut steps = 0u64;
        macro_rules! go {
            ($ty:ty, $parse:ident) => {{
                let mut cur = match <$ty>::$parse(self.bases[*i].0) {
                    Ok(e) => e,
                    Err(e) => return (Err(format!("base rejected: {}", e.msg())), reft, steps),
                };
                for a in &hist[1..] {
                    let Act::Subs(choice) = a else { unreachable!() };
                    let names: Vec<String> = cur.var_names().to_vec();
                    let ref_names = reft.vars();
                    if names != ref_names {
                        return (Err(format!("variables {names:?} instead of {ref_names:?} before the substitution")), reft, steps);
                    }
                    let pick = |v: &str| -> Option<usize> {
                        let p = names.iter().position(|n| n == v)?;
                        let c = *choice.get(p)? as usize;
                        if c == 0 {
                            None
                        } else {
                            Some(c - 1)
                        }
                    };
                    let pool = self.pool.clone();
                    let mut sub = |v: &str| pick(v).map(|k| <$ty>::$parse(pool[k].0).expect("pool parses"));
                    steps += 1;
                    cur = match cur.subs(&mut sub) {
                        Ok(e) => e,
                        Err(e) => return (Err(format!("subs failed: {}", e.msg())), reft, steps),
                    };
                    reft = subst(&reft, &|v| pick(v).map(|k| self.pool[k].1.clone()));
                }
                let names: Vec<String> = cur.var_names().to_vec();
                steps += 1;
                match cur.eval(&var_syms(names.len())) {
                    Ok(v) => (Ok((names, v, format!("{cur:?}"))), reft, steps),
                    Err(e) => (Err(format!("eval failed: {}", e.msg())), reft, steps),
                }
            }};
        }
        match *form {
            1 => go!(SDeep, parse),
            2 => go!(SFlat, parse_wo_compile),
            _ => go!(SFlat, parse),
        }
    }
}

impl Hist for SubsModel {
    type Act = Act;
    fn roots(&self) -> Vec<Vec<Act>> {
        // (the uncompiled form differs from the compiled one only if the text contains a literal)
        (0..self.bases.len())
            .flat_map(|i| {
                let mut v = vec![vec![Act::Init(i, 0)], vec![Act::Init(i, 1)]];
                if self.bases[i].0.contains(|c: char| c.is_ascii_digit()) {
                    v.push(vec![Act::Init(i, 2)]);
                }
                v
            })
            .collect()
    }
    fn enabled(&self, hist: &[Act], out: &mut Vec<Act>) {
        // current variables follow from the reference tree
        let Act::Init(i, _) = &hist[0] else { return };
        let mut reft = self.bases[*i].1.clone();
        for a in &hist[1..] {
            if let Act::Subs(choice) = a {
                let names = reft.vars();
                reft = subst(&reft, &|v| {
                    let p = names.iter().position(|n| n == v)?;
                    let c = *choice.get(p)? as usize;
                    if c == 0 {
                        None
                    } else {
                        Some(self.pool[c - 1].1.clone())
                    }
                });
            }
        }
        let n = reft.vars().len();
        let k = self.pool.len() + 1;
        if hist.len() == 1 {
            // every partial map (incl. the empty one)
            let total = (k as u64).pow(n as u32);
            for m in 0..total {
                let mut c = Vec::with_capacity(n);
                let mut r = m;
                for _ in 0..n {
                    c.push((r % k as u64) as u8);
                    r /= k as u64;
                }
                out.push(Act::Subs(c));
            }
        } else {
            // repeated substitution: the empty map, every single-variable replacement, and the
            // map that sends every variable to the same replacement
            out.push(Act::Subs(vec![0; n]));
            for v in 0..n {
                for c in 1..k {
                    let mut m = vec![0u8; n];
                    m[v] = c as u8;
                    out.push(Act::Subs(m));
                }
            }
            for c in 1..k {
                out.push(Act::Subs(vec![c as u8; n]));
            }
        }
    }
    fn max_len(&self) -> usize {
        self.max_len
    }
    fn describe(&self, hist: &[Act]) -> Value {
        let Act::Init(i, form) = &hist[0] else { unreachable!() };
        let mut reft = self.bases[*i].1.clone();
        let mut steps = vec![format!("{}({:?})", ["FlatEx::parse", "DeepEx::parse", "FlatEx::parse_wo_compile"][*form as usize], self.bases[*i].0)];
        for a in &hist[1..] {
            if let Act::Subs(choice) = a {
                let names = reft.vars();
                let m: Vec<String> = names.iter().zip(choice).filter(|(_, c)| **c > 0).map(|(n, c)| format!("{n} := {}", self.pool[*c as usize - 1].0)).collect();
                steps.push(format!("subs{{{}}}", m.join(", ")));
                reft = subst(&reft, &|v| {
                    let p = names.iter().position(|n| n == v)?;
                    let c = *choice.get(p)? as usize;
                    if c == 0 {
                        None
                    } else {
                        Some(self.pool[c - 1].1.clone())
                    }
                });
            }
        }
        json!(steps)
    }
    fn run(&self, hist: &[Act]) -> Outcome {
        set_table(&self.table);
        let Act::Init(_, form0) = &hist[0] else { unreachable!() };
        let form = ["flat", "deep", "flat-uncompiled"][*form0 as usize];
        let (res, reft, steps) = self.replay(hist);
        let mut out = Outcome { key: String::new(), bad: vec![], terminal: false, steps };
        match res {
            Err(m) => {
                out.bad.push((format!("{form}:failed"), format!("{}: {m}", self.describe(hist))));
                out.terminal = true;
                out.key = format!("failed:{m}");
            }
            Ok((names, v, dump)) => {
                let vars = reft.vars();
                if names != vars {
                    out.bad.push((format!("{form}:variable-union"), format!("{}: variables {names:?} instead of the sorted union {vars:?}", self.describe(hist))));
                } else {
                    let want = reft.eval_sym(&vars, &self.table);
                    if v.contains_dflt() || nf_ac(&v, &self.table) != nf_ac(&want, &self.table) {
                        out.bad.push((format!("{form}:value"), format!("{}: value {} instead of {} (simultaneous substitution on the reference tree)", self.describe(hist), show(&v, &self.table), show(&want, &self.table))));
                    }
                }
                out.key = format!("{dump}|{}", reft.show(&self.table));
            }
        }
        out
    }
}

fn read_all(texts: &[&'static str], t: &Table) -> Vec<(&'static str, Tree)> {
    texts
        .iter()
        .map(|s| match spec::read(s, t, LitKind::Sym) {
            SpecResult::Ok(tr) => (*s, tr),
            o => {
                println!("MACHINERY-FAILURE property=C11 text {s:?}: {o:?}");
                std::process::exit(2)
            }
        })
        .collect()
}

fn bases_of(al: Alphabet, sizes: &[(usize, usize)], t: &Table) -> Vec<(&'static str, Tree)> {
    let space = TreeSpace::new(al, sizes);
    let r = Renderer { t, lk: LitKind::Sym };
    (0..space.total)
        .map(|i| {
            let tree = space.get(i);
            let text = intern(&r.render_default(&tree));
            (text, tree)
        })
        .filter(|(_, tr)| tr.has_var())
        .collect()
}

/// expressions with 15..33 variables (beyond the inline capacity of the name lists), some of them
/// recurring in nested groups; selected substitution histories (not the full product): identity,
/// one variable at a distinguished position replaced by every pool entry, all-to-one, each
/// followed by a second substitution
fn many_variable_subs(t: &Arc<Table>, rep: &mut Report, th: bool) {
    let ms: Vec<usize> = if th { vec![15, 16, 17, 18, 20, 32, 33, 65] } else { vec![16, 17, 18, 33] };
    let name = |i: usize| format!("v{:02}", i + 1);
    let mut base_texts: Vec<&'static str> = Vec::new();
    for &m in &ms {
        let chain = (0..m).map(name).collect::<Vec<_>>().join("+");
        base_texts.push(intern(&format!("{chain}+{}*{}+({}-{})", name(0), name(1), name(2), name(0))));
        base_texts.push(intern(&format!("f({}+{})*({chain})-f({}/{})", name(m - 1), name(0), name(1), name(m - 2))));
        base_texts.push(intern(&format!("({})*({})", (0..m).step_by(2).map(name).collect::<Vec<_>>().join("+"), (0..m).rev().step_by(3).map(name).collect::<Vec<_>>().join("-"))));
    }
    let bases = read_all(&base_texts, t);
    let pool = read_all(&["v02+v03", "v01*w", "a", "f(v05)+1", "2", "v17-v01", "z9"], t);
    let m = SubsModel { table: t.clone(), bases: Arc::new(bases), pool: Arc::new(pool), max_len: 3 };
    let mut hists: Vec<Vec<Act>> = Vec::new();
    for (bi, (_, tree)) in m.bases.iter().enumerate() {
        let n = tree.vars().len();
        let k = m.pool.len();
        for form in 0..3u8 {
            if form == 2 && !m.bases[bi].0.contains(|c: char| c.is_ascii_digit()) {
                continue;
            }
            let init = Act::Init(bi, form);
            let mut firsts: Vec<Vec<u8>> = vec![vec![0; n]];
            let mut marks = vec![0usize, 1, 4, 14, 15, 16, n / 2, n - 1];
            marks.retain(|p| *p < n);
            marks.sort();
            marks.dedup();
            for &p in &marks {
                for j in 1..=k {
                    let mut c = vec![0u8; n];
                    c[p] = j as u8;
                    firsts.push(c);
                }
            }
            for j in 1..=k {
                firsts.push(vec![j as u8; n]);
            }
            for f in firsts {
                hists.push(vec![init.clone(), Act::Subs(f.clone())]);
                // a second step: identity, and the (new) first variable replaced
                hists.push(vec![init.clone(), Act::Subs(f.clone()), Act::Subs(vec![])]);
                hists.push(vec![init.clone(), Act::Subs(f), Act::Subs(vec![1])]);
            }
        }
    }
    if let Some(target) = REPLAY_TARGET.get() {
        // `verif replay`: these histories are listed, not enumerated by a model
        set_table(t);
        if let Some(h) = hists.iter().find(|h| &m.describe(h) == target) {
            println!("found in the many-variables family: {h:?}");
            let code = match guard(|| m.run(h)) {
                Ok(o) if o.bad.is_empty() => {
                    println!("  => this history agrees with the reference");
                    0
                }
                Ok(o) => {
                    for (sig, what) in &o.bad {
                        println!("  BAD {sig}: {what}");
                    }
                    1
                }
                Err(p) => {
                    println!("  BAD panic: {p}");
                    1
                }
            };
            std::process::exit(code);
        }
        return;
    }
    let accs = par_ranges(hists.len() as u64, 8, || {
        install_panic_hook();
        set_table(t);
    }, |st, en, acc| {
        for i in st..en {
            let h = &hists[i as usize];
            acc.states += 1;
            acc.nontrivial += 1;
            acc.evaluations += 1;
            let out = match guard(|| m.run(h)) {
                Ok(o) => o,
                Err(p) => Outcome { key: String::new(), bad: vec![(format!("panic:{}", panic_site(&p)), format!("history {} panicked: {p}", m.describe(h)))], terminal: true, steps: 0 },
            };
            acc.transitions += out.steps;
            for (sig, what) in out.bad {
                acc.violate(Violation { signature: format!("many-variables:{sig}"), what, case: json!({"engine": "c11", "history": m.describe(h)}) });
            }
        }
    });
    for a in accs {
        rep.absorb(a);
    }
    rep.bounds.push(format!("many variables: {} base expressions with {ms:?} variables (recurring in nested groups) x forms x {} selected substitution histories (identity, one distinguished variable := every pool entry, all-to-one; each followed by an identity / first-variable substitution): complete", m.bases.len(), hists.len()));
}

pub fn run(tier: Tier) -> i32 {
    let mut rep = Report::new("C11", tier);
    rep.rule = "explicit-state exploration: state = (base expression, form, substitution history); first step: every partial map from the expression's variables into a replacement pool (variable renaming, swap, constant, self-referential, multi-variable and new-variable replacements, and no replacement); further steps: empty map, every single-variable replacement, all-to-one maps; oracle: simultaneous substitution on the reference tree, sorted union of the variables, symbolic value modulo AC; distinct = unique structural dumps; non-trivial = at least one substitution".into();
    rep.assumptions = vec!["as C01".into()];
    install_panic_hook();
    let t = table();
    // incl. replacements that are the replaced variable itself under unary operators only
    let pool = read_all(if tier.thorough() { &["y", "x", "2", "x+1", "z*x", "w", "-x", "f(x)", "f(y)-x", "{a b}", "-f(z)"][..] } else { &["y", "x", "2", "x+1", "z*x", "w", "-x", "f(x)"][..] }, &t);
    many_variable_subs(&t, &mut rep, tier.thorough());
    let leaves = vec![Tree::var("x"), Tree::var("y"), Tree::var("z"), Tree::lit(1)];
    let small = bases_of(Alphabet { leaves: leaves.clone(), uns: vec![2, 4], bins: vec![0, 1, 2, 3] }, &[(1, 0), (1, 1), (2, 0), (2, 1)], &t);
    let n_small = small.len();
    let m = SubsModel { table: t.clone(), bases: Arc::new(small), pool: Arc::new(pool.clone()), max_len: if tier.thorough() { 4 } else { 3 } };
    explore(m, &mut rep, "c11", &format!("{n_small} expressions with <= 2 leaves, repeated substitution"));
    let big = bases_of(Alphabet { leaves, uns: vec![4], bins: vec![0, 1, 2, 3] }, &[(3, 0), (3, 1)], &t);
    let n_big = big.len();
    let m = SubsModel { table: t.clone(), bases: Arc::new(big), pool: Arc::new(pool), max_len: if tier.thorough() { 3 } else { 2 } };
    explore(m, &mut rep, "c11", &format!("{n_big} expressions with 3 leaves"));
    crate::derived::run_derived(&mut rep, "C11", crate::derived::Focus::Subs, tier.thorough());
    // two different commutative operators on one priority level, on both sides of a replaced variable
    let twin_leaves = vec![Tree::var("x"), Tree::var("y"), Tree::lit(1)];
    let twin = bases_of(Alphabet { leaves: twin_leaves, uns: vec![], bins: vec![0, 5, 1, 6] }, &[(2, 0), (3, 0)], &t);
    let n_twin = twin.len();
    let twin_pool = read_all(&["x|y", "y&x", "x+y", "z*x", "2|z"], &t);
    let m = SubsModel { table: t.clone(), bases: Arc::new(twin), pool: Arc::new(twin_pool), max_len: if tier.thorough() { 3 } else { 2 } };
    explore(m, &mut rep, "c11", &format!("{n_twin} expressions over two pairs of commutative operators of equal priority (+ |, * &)"));
    rep.finish()
}
