//! Number types for the derivative checks: exact rationals `Q` and error-bounded floats `Fe`,
//! both usable as exmex data types with the default float operator names, plus forward-mode
//! dual numbers on reference trees.
use crate::spec::Tree;
use crate::sym::Table;
use exmex::{BinOp, MakeOperators, Operator};
use num::bigint::BigInt;
use num::rational::BigRational;
use num::{One, Signed, ToPrimitive, Zero};
use std::fmt;
use std::str::FromStr;

pub trait Num: Clone + fmt::Debug {
    fn lit(s: &str) -> Self;
    fn from_f64(x: f64) -> Self;
    fn bin(name: &str, a: &Self, b: &Self) -> Self;
    fn un(name: &str, a: &Self) -> Self;
    fn defined(&self) -> bool;
    /// exactly (structurally) zero: terms multiplied by it are dropped
    fn is_exact_zero(&self) -> bool;
    /// certainly > 0
    fn positive(&self) -> bool;
}

// ---------------------------------------------------------------------------------------------
// Q: exact rationals with an absorbing "undefined"

#[derive(Clone, PartialEq, Default)]
pub enum Q {
    R(BigRational),
    #[default]
    Undef,
}
impl Q {
    pub fn int(i: i64) -> Q {
        Q::R(BigRational::from_integer(BigInt::from(i)))
    }
    pub fn frac(n: i64, d: i64) -> Q {
        Q::R(BigRational::new(BigInt::from(n), BigInt::from(d)))
    }
    pub fn positive_rational(&self) -> bool {
        matches!(self, Q::R(r) if r.is_positive())
    }
    pub fn r(&self) -> Option<&BigRational> {
        match self {
            Q::R(r) => Some(r),
            Q::Undef => None,
        }
    }
}
impl fmt::Debug for Q {
    fn fmt(&self, f: &mut fmt::Formatter<'_>) -> fmt::Result {
        match self {
            Q::R(r) => {
                if r.is_integer() && !r.is_negative() {
                    write!(f, "{}", r.numer())
                } else if r.is_integer() {
                    write!(f, "(-{})", r.numer().abs())
                } else if r.is_negative() {
                    write!(f, "(-{}/{})", r.numer().abs(), r.denom())
                } else {
                    write!(f, "({}/{})", r.numer(), r.denom())
                }
            }
            Q::Undef => write!(f, "(0/0)"),
        }
    }
}
impl FromStr for Q {
    type Err = String;
    fn from_str(s: &str) -> Result<Self, String> {
        // decimal literal -> exact rational
        let (ip, fp) = match s.split_once('.') {
            Some((a, b)) => (a, b),
            None => (s, ""),
        };
        if ip.is_empty() && fp.is_empty() || !ip.chars().all(|c| c.is_ascii_digit()) || !fp.chars().all(|c| c.is_ascii_digit()) {
            return Err(format!("not a decimal literal: {s}"));
        }
        let digits = format!("{ip}{fp}");
        let n = BigInt::from_str(if digits.is_empty() { "0" } else { &digits }).map_err(|e| e.to_string())?;
        let d = num::pow(BigInt::from(10), fp.len());
        Ok(Q::R(BigRational::new(n, d)))
    }
}
thread_local! {
    static FROM_CALLS: std::cell::Cell<u64> = const { std::cell::Cell::new(0) };
}
/// number of From<u8>/From<f32> conversions requested from Q / Fe on this thread: only
/// differentiation and the neutral-element shortcuts create numbers this way ("work")
pub fn from_calls() -> u64 {
    FROM_CALLS.with(|c| c.get())
}
fn bump_from() {
    FROM_CALLS.with(|c| c.set(c.get() + 1));
}
impl From<u8> for Q {
    fn from(v: u8) -> Self {
        bump_from();
        Q::int(v as i64)
    }
}
impl From<f32> for Q {
    fn from(v: f32) -> Self {
        bump_from();
        match BigRational::from_float(v) {
            Some(r) => Q::R(r),
            None => Q::Undef,
        }
    }
}
fn q_pow(a: &Q, b: &Q) -> Q {
    let (Some(x), Some(y)) = (a.r(), b.r()) else { return Q::Undef };
    // exponent p/q in lowest terms with a small denominator: exact iff numerator and
    // denominator of the base are perfect q-th powers (and the base is not negative for even q)
    let (Some(p), Some(q)) = (y.numer().to_i64(), y.denom().to_u32()) else { return Q::Undef };
    if p.abs() > 64 || q == 0 || q > 6 {
        return Q::Undef;
    }
    let root = if q == 1 {
        x.clone()
    } else {
        use num::integer::Roots;
        if x.is_negative() && q % 2 == 0 {
            return Q::Undef;
        }
        let (n, d) = (x.numer().abs(), x.denom().clone());
        let (rn, rd) = (n.nth_root(q), d.nth_root(q));
        if num::pow(rn.clone(), q as usize) != n || num::pow(rd.clone(), q as usize) != d {
            return Q::Undef;
        }
        let r = BigRational::new(rn, rd);
        if x.is_negative() {
            -r
        } else {
            r
        }
    };
    if p >= 0 {
        Q::R(num::pow(root, p as usize))
    } else if root.is_zero() {
        Q::Undef
    } else {
        Q::R(num::pow(root.recip(), (-p) as usize))
    }
}
impl Num for Q {
    fn lit(s: &str) -> Self {
        Q::from_str(s).unwrap_or(Q::Undef)
    }
    fn from_f64(x: f64) -> Self {
        match BigRational::from_float(x) {
            Some(r) => Q::R(r),
            None => Q::Undef,
        }
    }
    fn bin(name: &str, a: &Self, b: &Self) -> Self {
        let (Some(x), Some(y)) = (a.r(), b.r()) else { return Q::Undef };
        match name {
            "+" => Q::R(x + y),
            "-" => Q::R(x - y),
            "*" => Q::R(x * y),
            "/" => {
                if y.is_zero() {
                    Q::Undef
                } else {
                    Q::R(x / y)
                }
            }
            "^" => q_pow(a, b),
            _ => Q::Undef,
        }
    }
    fn un(name: &str, a: &Self) -> Self {
        let Some(x) = a.r() else { return Q::Undef };
        match name {
            "+" => Q::R(x.clone()),
            "-" => Q::R(-x.clone()),
            _ => Q::Undef,
        }
    }
    fn defined(&self) -> bool {
        matches!(self, Q::R(_))
    }
    fn is_exact_zero(&self) -> bool {
        matches!(self, Q::R(r) if r.is_zero())
    }
    fn positive(&self) -> bool {
        // Q has no logarithm: a variable-dependent exponent is outside the rational fragment
        false
    }
}


pub const BIN_NAMES: [&str; 8] = ["^", "*", "/", "+", "-", "atan2", "min", "max"];
pub const UN_NAMES: [&str; 28] = [
    "+", "-", "abs", "signum", "sin", "cos", "tan", "asin", "acos", "atan", "sinh", "cosh", "tanh", "asinh", "acosh", "atanh", "floor", "round", "ceil", "trunc", "fract", "exp", "sqrt", "cbrt", "ln", "log2",
    "log10", "log",
];
fn bin_k<T: Num, const K: usize>(a: T, b: T) -> T {
    T::bin(BIN_NAMES[K], &a, &b)
}
fn un_k<T: Num, const K: usize>(a: T) -> T {
    T::un(UN_NAMES[K], &a)
}

/// operator factory with the names, priorities and flags of FloatOpsFactory for any `Num`
#[derive(Clone, Debug)]
pub struct NumOps<T>(std::marker::PhantomData<T>);
impl<T> PartialEq for NumOps<T> {
    fn eq(&self, _: &Self) -> bool {
        true
    }
}
impl<T: Num + exmex::DataType> MakeOperators<T> for NumOps<T> {
    fn make<'a>() -> Vec<Operator<'a, T>> {
        let b = |apply: fn(T, T) -> T, prio: i64, is_commutative: bool| BinOp { apply, prio, is_commutative };
        let mut v = vec![
            Operator::make_bin("^", b(bin_k::<T, 0>, 4, false)),
            Operator::make_bin("*", b(bin_k::<T, 1>, 2, true)),
            Operator::make_bin("/", b(bin_k::<T, 2>, 3, false)),
            Operator::make_bin_unary("+", b(bin_k::<T, 3>, 0, true), un_k::<T, 0>),
            Operator::make_bin_unary("-", b(bin_k::<T, 4>, 1, false), un_k::<T, 1>),
            Operator::make_bin("atan2", b(bin_k::<T, 5>, 0, false)),
            Operator::make_bin("min", b(bin_k::<T, 6>, 0, false)),
            Operator::make_bin("max", b(bin_k::<T, 7>, 0, false)),
        ];
        macro_rules! un {
            ($($k:literal)*) => { $( v.push(Operator::make_unary(UN_NAMES[$k], un_k::<T, $k>)); )* };
        }
        un!(2 3 4 5 6 7 8 9 10 11 12 13 14 15 16 17 18 19 20 21 22 23 24 25 26 27);
        for (n, c) in [("PI", std::f64::consts::PI), ("π", std::f64::consts::PI), ("E", std::f64::consts::E), ("e", std::f64::consts::E), ("TAU", std::f64::consts::TAU), ("τ", std::f64::consts::TAU)] {
            v.push(Operator::make_constant(n, T::from_f64(c)));
        }
        v
    }
}

// ---------------------------------------------------------------------------------------------
// Fe: f64 value with a running absolute error bound (first order)

#[derive(Clone, Copy, Default)]
pub struct Fe {
    pub v: f64,
    pub e: f64,
}
const U: f64 = 1.1102230246251565e-16; // 2^-53
impl Fe {
    pub fn exact(v: f64) -> Fe {
        Fe { v, e: 0.0 }
    }
    fn mk(v: f64, e: f64, ulps: f64) -> Fe {
        if !v.is_finite() {
            return Fe { v, e: f64::INFINITY };
        }
        let mut e = e + ulps * U * v.abs();
        if e > 0.0 {
            e += f64::MIN_POSITIVE;
        }
        Fe { v, e: if e.is_nan() { f64::INFINITY } else { e } }
    }
}
impl PartialEq for Fe {
    /// values only: the is_zero/is_one shortcuts of the library must fire exactly as for f64
    fn eq(&self, o: &Fe) -> bool {
        self.v == o.v
    }
}
impl fmt::Debug for Fe {
    fn fmt(&self, f: &mut fmt::Formatter<'_>) -> fmt::Result {
        write!(f, "{:?}", self.v)
    }
}
impl FromStr for Fe {
    type Err = std::num::ParseFloatError;
    fn from_str(s: &str) -> Result<Self, Self::Err> {
        // decimal literals are not exactly representable in general: half an ulp
        s.parse::<f64>().map(|v| Fe { v, e: 0.5 * U * v.abs() })
    }
}
impl From<u8> for Fe {
    fn from(v: u8) -> Self {
        bump_from();
        Fe::exact(v as f64)
    }
}
impl From<f32> for Fe {
    fn from(v: f32) -> Self {
        bump_from();
        Fe::exact(v as f64)
    }
}
impl Num for Fe {
    fn lit(s: &str) -> Self {
        Fe::from_str(s).unwrap_or(Fe { v: f64::NAN, e: f64::INFINITY })
    }
    fn from_f64(x: f64) -> Self {
        Fe { v: x, e: 0.5 * U * x.abs() }
    }
    fn defined(&self) -> bool {
        self.v.is_finite() && self.e.is_finite()
    }
    fn is_exact_zero(&self) -> bool {
        self.v == 0.0 && self.e == 0.0
    }
    fn positive(&self) -> bool {
        self.v - self.e > 0.0
    }
    fn bin(name: &str, a: &Fe, b: &Fe) -> Fe {
        let (x, y) = (a.v, b.v);
        match name {
            "+" => Fe::mk(x + y, a.e + b.e, 1.0),
            "-" => Fe::mk(x - y, a.e + b.e, 1.0),
            "*" => Fe::mk(x * y, y.abs() * a.e + x.abs() * b.e + a.e * b.e, 1.0),
            "/" => {
                let lo = y.abs() - b.e;
                if lo <= 0.0 {
                    Fe { v: x / y, e: f64::INFINITY }
                } else {
                    Fe::mk(x / y, a.e / lo + (x.abs() + a.e) * b.e / (lo * lo), 1.0)
                }
            }
            "^" => {
                let r = x.powf(y);
                // d/dx = y x^(y-1), d/dy = x^y ln x
                let mut e = 0.0;
                if a.e > 0.0 {
                    if x.abs() - a.e <= 0.0 && y < 1.0 {
                        e = f64::INFINITY;
                    } else {
                        e += (y * (x.abs() + a.e).powf(y - 1.0)).abs().max((y * (x.abs() - a.e).abs().powf(y - 1.0)).abs()) * a.e;
                    }
                }
                if b.e > 0.0 {
                    if x - a.e <= 0.0 {
                        e = f64::INFINITY;
                    } else {
                        e += (r * x.ln()).abs() * b.e * 1.0001 + r.abs() * b.e * b.e;
                    }
                }
                Fe::mk(r, e, 4.0)
            }
            "atan2" => {
                let d = x * x + y * y;
                if d == 0.0 {
                    Fe { v: x.atan2(y), e: f64::INFINITY }
                } else {
                    Fe::mk(x.atan2(y), (y.abs() * a.e + x.abs() * b.e) / d * 1.01, 4.0)
                }
            }
            "min" => Fe::mk(x.min(y), a.e.max(b.e), 0.0),
            "max" => Fe::mk(x.max(y), a.e.max(b.e), 0.0),
            _ => Fe { v: f64::NAN, e: f64::INFINITY },
        }
    }
    fn un(name: &str, a: &Fe) -> Fe {
        let x = a.v;
        let e = a.e;
        // largest |f'| over [x-e, x+e], conservatively
        let around = |f: &dyn Fn(f64) -> f64| f(x).abs().max(f(x - e).abs()).max(f(x + e).abs());
        let steps = |r: f64| {
            if e == 0.0 || ((x - e).floor() == (x + e).floor() && (x - e).ceil() == (x + e).ceil() && (x - e).round() == (x + e).round()) {
                Fe::mk(r, 0.0, 0.0)
            } else {
                Fe { v: r, e: f64::INFINITY }
            }
        };
        match name {
            "+" => *a,
            "-" => Fe { v: -x, e },
            "abs" => Fe { v: x.abs(), e },
            "signum" => {
                if x.abs() > e {
                    Fe::exact(x.signum())
                } else {
                    Fe { v: x.signum(), e: f64::INFINITY }
                }
            }
            "sin" => Fe::mk(x.sin(), e, 2.0),
            "cos" => Fe::mk(x.cos(), e, 2.0),
            "tan" => Fe::mk(x.tan(), around(&|t| 1.0 / (t.cos() * t.cos())) * e, 4.0),
            "asin" => Fe::mk(x.asin(), if x.abs() + e >= 1.0 { f64::INFINITY } else { e / (1.0 - (x.abs() + e).powi(2)).sqrt() }, 4.0),
            "acos" => Fe::mk(x.acos(), if x.abs() + e >= 1.0 { f64::INFINITY } else { e / (1.0 - (x.abs() + e).powi(2)).sqrt() }, 4.0),
            "atan" => Fe::mk(x.atan(), e, 2.0),
            "sinh" => Fe::mk(x.sinh(), (x.abs() + e).cosh() * e, 4.0),
            "cosh" => Fe::mk(x.cosh(), (x.abs() + e).sinh().abs() * e, 4.0),
            "tanh" => Fe::mk(x.tanh(), e, 4.0),
            "asinh" => Fe::mk(x.asinh(), e, 4.0),
            "acosh" => Fe::mk(x.acosh(), if x - e <= 1.0 { f64::INFINITY } else { e / ((x - e).powi(2) - 1.0).sqrt() }, 4.0),
            "atanh" => Fe::mk(x.atanh(), if x.abs() + e >= 1.0 { f64::INFINITY } else { e / (1.0 - (x.abs() + e).powi(2)) }, 4.0),
            "floor" => steps(x.floor()),
            "ceil" => steps(x.ceil()),
            "round" => steps(x.round()),
            "trunc" => steps(x.trunc()),
            "fract" => {
                let s = steps(x.trunc());
                Fe { v: x.fract(), e: if s.e.is_finite() { e } else { f64::INFINITY } }
            }
            "exp" => Fe::mk(x.exp(), (x + e).exp() * e, 2.0),
            "sqrt" => Fe::mk(x.sqrt(), if x - e <= 0.0 { if e == 0.0 { 0.0 } else { f64::INFINITY } } else { e / (2.0 * (x - e).sqrt()) }, 1.0),
            "cbrt" => Fe::mk(x.cbrt(), if x.abs() - e <= 0.0 { if e == 0.0 { 0.0 } else { f64::INFINITY } } else { e / (3.0 * (x.abs() - e).cbrt().powi(2)) }, 2.0),
            "ln" | "log" => Fe::mk(x.ln(), if x - e <= 0.0 { f64::INFINITY } else { e / (x - e) }, 2.0),
            "log2" => Fe::mk(x.log2(), if x - e <= 0.0 { f64::INFINITY } else { e / ((x - e) * std::f64::consts::LN_2) }, 2.0),
            "log10" => Fe::mk(x.log10(), if x - e <= 0.0 { f64::INFINITY } else { e / ((x - e) * std::f64::consts::LN_10) }, 2.0),
            _ => Fe { v: f64::NAN, e: f64::INFINITY },
        }
    }
}

// ---------------------------------------------------------------------------------------------
// forward-mode differentiation on reference trees: jets over any `Num` (nestable for higher order)

#[derive(Clone, Debug)]
pub struct Jet<N: Num> {
    pub v: N,
    pub d: N,
    /// structurally depends on some variable (not only on the differentiation variable)
    pub dep: bool,
}
impl<N: Num> Jet<N> {
    pub fn constant(v: N) -> Self {
        Jet { v, d: N::from_f64(0.0), dep: true }
    }
    pub fn variable(v: N) -> Self {
        Jet { v, d: N::from_f64(1.0), dep: true }
    }
    pub fn literal(v: N) -> Self {
        Jet { v, d: N::from_f64(0.0), dep: false }
    }
}
fn b<N: Num>(n: &str, a: &N, c: &N) -> N {
    N::bin(n, a, c)
}
impl<N: Num> Num for Jet<N> {
    fn lit(s: &str) -> Self {
        Jet::literal(N::lit(s))
    }
    fn from_f64(x: f64) -> Self {
        Jet::literal(N::from_f64(x))
    }
    fn defined(&self) -> bool {
        self.v.defined() && self.d.defined()
    }
    fn positive(&self) -> bool {
        self.v.positive()
    }
    fn is_exact_zero(&self) -> bool {
        self.v.is_exact_zero() && self.d.is_exact_zero()
    }
    fn bin(name: &str, x: &Self, y: &Self) -> Self {
        let one = N::from_f64(1.0);
        let v = N::bin(name, &x.v, &y.v);
        let xz = x.d.is_exact_zero();
        let yz = y.d.is_exact_zero();
        let zero = N::from_f64(0.0);
        let d = match name {
            "+" => {
                if xz {
                    y.d.clone()
                } else if yz {
                    x.d.clone()
                } else {
                    b("+", &x.d, &y.d)
                }
            }
            "-" => {
                if yz {
                    x.d.clone()
                } else if xz {
                    N::un("-", &y.d)
                } else {
                    b("-", &x.d, &y.d)
                }
            }
            "*" => {
                let t1 = if xz { zero.clone() } else { b("*", &x.d, &y.v) };
                let t2 = if yz { zero.clone() } else { b("*", &x.v, &y.d) };
                if xz {
                    t2
                } else if yz {
                    t1
                } else {
                    b("+", &t1, &t2)
                }
            }
            "/" => {
                let t1 = if xz { zero.clone() } else { b("/", &x.d, &y.v) };
                let t2 = if yz { zero.clone() } else { b("/", &b("*", &x.v, &y.d), &b("*", &y.v, &y.v)) };
                if yz {
                    t1
                } else if xz {
                    N::un("-", &t2)
                } else {
                    b("-", &t1, &t2)
                }
            }
            "^" if y.dep && !x.v.positive() => {
                // a variable-dependent exponent over a non-positive base: not in the interior of
                // the domain of the power function
                N::from_f64(f64::NAN)
            }
            "^" => {
                let t1 = if xz { zero.clone() } else { b("*", &b("*", &y.v, &b("^", &x.v, &b("-", &y.v, &one))), &x.d) };
                let t2 = if yz { zero.clone() } else { b("*", &b("*", &v, &N::un("ln", &x.v)), &y.d) };
                if xz {
                    t2
                } else if yz {
                    t1
                } else {
                    b("+", &t1, &t2)
                }
            }
            // piecewise expressions of the value type: differentiate branch-wise, the condition
            // keeps its value
            "if" => b("if", &x.d, &y.v),
            "else" => b("else", &x.d, &y.d),
            "<" | ">" | "<=" | ">=" | "==" | "!=" => zero,
            // operators without a rule: derivative is only meaningful when both operands are constant
            _ => {
                if xz && yz {
                    zero
                } else {
                    N::from_f64(f64::NAN)
                }
            }
        };
        Jet { v, d, dep: x.dep || y.dep }
    }
    fn un(name: &str, x: &Self) -> Self {
        let one = N::from_f64(1.0);
        let two = N::from_f64(2.0);
        let v = N::un(name, &x.v);
        if x.d.is_exact_zero() {
            return Jet { v, d: N::from_f64(0.0), dep: x.dep };
        }
        let sq = |z: &N| b("*", z, z);
        let outer = match name {
            "+" => one.clone(),
            "-" => N::un("-", &one),
            "sin" => N::un("cos", &x.v),
            "cos" => N::un("-", &N::un("sin", &x.v)),
            "tan" => b("/", &one, &sq(&N::un("cos", &x.v))),
            "asin" => b("/", &one, &N::un("sqrt", &b("-", &one, &sq(&x.v)))),
            "acos" => N::un("-", &b("/", &one, &N::un("sqrt", &b("-", &one, &sq(&x.v))))),
            "atan" => b("/", &one, &b("+", &one, &sq(&x.v))),
            "sinh" => N::un("cosh", &x.v),
            "cosh" => N::un("sinh", &x.v),
            "tanh" => b("-", &one, &sq(&N::un("tanh", &x.v))),
            "asinh" => b("/", &one, &N::un("sqrt", &b("+", &sq(&x.v), &one))),
            "acosh" => b("/", &one, &N::un("sqrt", &b("-", &sq(&x.v), &one))),
            "atanh" => b("/", &one, &b("-", &one, &sq(&x.v))),
            "exp" => N::un("exp", &x.v),
            "ln" | "log" => b("/", &one, &x.v),
            "log2" => b("/", &one, &b("*", &x.v, &N::from_f64(std::f64::consts::LN_2))),
            "log10" => b("/", &one, &b("*", &x.v, &N::from_f64(std::f64::consts::LN_10))),
            "sqrt" => b("/", &one, &b("*", &two, &N::un("sqrt", &x.v))),
            _ => N::from_f64(f64::NAN),
        };
        Jet { v, d: b("*", &outer, &x.d), dep: x.dep }
    }
}

pub const NO_RULE_UN: [&str; 8] = ["abs", "signum", "floor", "ceil", "round", "trunc", "fract", "cbrt"];
pub const NO_RULE_BIN: [&str; 3] = ["min", "max", "atan2"];

/// value of a reference tree over any number type
pub fn eval_num<N: Num>(tree: &Tree, t: &Table, vars: &[String], vals: &[N]) -> N {
    match tree {
        Tree::Lit(s) => N::lit(s),
        Tree::Const(k) => N::from_f64(match t.ops[*k as usize].name {
            "PI" | "π" => std::f64::consts::PI,
            "E" | "e" => std::f64::consts::E,
            _ => std::f64::consts::TAU,
        }),
        Tree::Var(name) => vals[vars.iter().position(|x| x == name).unwrap()].clone(),
        Tree::Un(k, a) => N::un(t.ops[*k as usize].name, &eval_num(a, t, vars, vals)),
        Tree::Bin(k, l, r) => N::bin(t.ops[*k as usize].name, &eval_num(l, t, vars, vals), &eval_num(r, t, vars, vals)),
    }
}

#[derive(Clone, Copy, Debug, PartialEq, Eq)]
pub enum NoRule {
    /// no operator without derivative rule has a variable-dependent operand
    None,
    /// such an operator depends on other variables only: the library may refuse or succeed
    Soft,
    /// such an operator sits above the differentiation variable: the library must refuse
    Hard,
}
fn contains_var(t: &Tree, name: &str) -> bool {
    match t {
        Tree::Var(v) => v == name,
        Tree::Un(_, a) => contains_var(a, name),
        Tree::Bin(_, a, b) => contains_var(a, name) || contains_var(b, name),
        _ => false,
    }
}
pub fn no_rule_class(tree: &Tree, t: &Table, var: &str) -> NoRule {
    let mut worst = NoRule::None;
    let mut up = |c: NoRule| {
        if c == NoRule::Hard || (c == NoRule::Soft && worst == NoRule::None) {
            worst = c;
        }
    };
    fn walk(tree: &Tree, t: &Table, var: &str, up: &mut dyn FnMut(NoRule)) {
        match tree {
            Tree::Un(k, a) => {
                if NO_RULE_UN.contains(&t.ops[*k as usize].name) {
                    if contains_var(a, var) {
                        up(NoRule::Hard)
                    } else if a.has_var() {
                        up(NoRule::Soft)
                    }
                }
                walk(a, t, var, up);
            }
            Tree::Bin(k, a, b) => {
                if NO_RULE_BIN.contains(&t.ops[*k as usize].name) {
                    if contains_var(a, var) || contains_var(b, var) {
                        up(NoRule::Hard)
                    } else if a.has_var() || b.has_var() {
                        up(NoRule::Soft)
                    }
                }
                walk(a, t, var, up);
                walk(b, t, var, up);
            }
            _ => {}
        }
    }
    walk(tree, t, var, &mut up);
    worst
}

pub fn num_table() -> std::sync::Arc<Table> {
    crate::langs::table_of(NumOps::<Fe>::make())
}
