//! C10 - operator application on expressions is a homomorphism.
use crate::common::*;
use crate::enumr::par_ranges;
use crate::hist::*;
use crate::numty::*;
use crate::report::*;
use crate::spec::{self, LitKind, SpecResult, Tree};
use crate::sym::*;
use exmex::prelude::*;
use exmex::{DeepEx, ExResult, Express};
use serde_json::{json, Value};
use std::sync::Arc;

// ---------------------------------------------------------------------------------------------
// (i) symbolic data type, universal table: application by name has no shortcut

type FlatN<const N: usize> = exmex::FlatEx<Sym, CfgOps<N>, SymMatcher>;
type DeepN<const N: usize> = DeepEx<'static, Sym, CfgOps<N>, SymMatcher>;
/// flat or deep expression over the operator factory in thread-local slot N
#[derive(Clone, Debug, PartialEq)]
pub enum SEx<const N: usize> {
    F(FlatN<N>),
    D(DeepN<N>),
}
/// form of the pool expressions: 0 = FlatEx::parse, 1 = DeepEx::parse, 2 = FlatEx::parse_wo_compile
pub type Form = u8;
impl<const N: usize> SEx<N> {
    fn parse(text: &'static str, form: Form) -> ExResult<SEx<N>> {
        Ok(match form {
            1 => SEx::D(DeepN::<N>::parse(text)?),
            2 => SEx::F(FlatN::<N>::parse_wo_compile(text)?),
            _ => SEx::F(FlatN::<N>::parse(text)?),
        })
    }
    fn un(self, name: &'static str) -> ExResult<SEx<N>> {
        Ok(match self {
            SEx::F(e) => SEx::F(e.operate_unary(name)?),
            SEx::D(e) => SEx::D(e.operate_unary(name)?),
        })
    }
    fn bin(self, other: SEx<N>, name: &'static str) -> ExResult<SEx<N>> {
        Ok(match (self, other) {
            (SEx::F(a), SEx::F(b)) => SEx::F(a.operate_binary(b, name)?),
            (SEx::D(a), SEx::D(b)) => SEx::D(a.operate_binary(b, name)?),
            _ => unreachable!(),
        })
    }
    fn names(&self) -> Vec<String> {
        match self {
            SEx::F(e) => e.var_names().to_vec(),
            SEx::D(e) => e.var_names().to_vec(),
        }
    }
    fn eval(&self, v: &[Sym]) -> ExResult<Sym> {
        match self {
            SEx::F(e) => e.eval(v),
            SEx::D(e) => e.eval(v),
        }
    }
    fn dump(&self) -> String {
        match self {
            SEx::F(e) => format!("{e:?}"),
            SEx::D(e) => format!("{e:?}"),
        }
    }
}

/// operator indices of a term over table `from` translated (by name) to table `to`
fn remap(s: &Sym, from: &Table, to: &Table) -> Sym {
    let tr = |k: u16| to.find(from.ops[k as usize].name).expect("twin tables have the same names");
    match s {
        Sym::Un(k, a) => Sym::Un(tr(*k), Arc::new(remap(a, from, to))),
        Sym::Bin(k, a, b) => Sym::Bin(tr(*k), Arc::new(remap(a, from, to)), Arc::new(remap(b, from, to))),
        x => x.clone(),
    }
}

#[derive(Clone, Debug, Hash, PartialEq, Eq)]
pub enum SAct {
    /// pool index, form (flat / deep / uncompiled flat), twin? (twin = the same operators in
    /// reverse table order, second operator factory; the history is first replayed with the
    /// primary factory on this thread)
    Init(usize, Form, bool),
    Un(usize),
    /// operator index, pool index of the other operand (usize::MAX = a copy of self), other on the left
    Bin(usize, usize, bool),
    Unknown,
}

#[derive(Clone)]
pub struct SymModel {
    pub table: Arc<Table>,
    pub twin: Arc<Table>,
    pub pool: Arc<Vec<(&'static str, Tree)>>,
    pub un_ops: Vec<u16>,
    pub bin_ops: Vec<u16>,
    pub max_len: usize,
    /// (form, second factory?) of the roots
    pub forms: Vec<(Form, bool)>,
}
impl Hist for SymModel {
    type Act = SAct;
    fn roots(&self) -> Vec<Vec<SAct>> {
        (0..self.pool.len()).flat_map(|i| self.forms.iter().map(move |(f, tw)| vec![SAct::Init(i, *f, *tw)])).collect()
    }
    fn enabled(&self, hist: &[SAct], out: &mut Vec<SAct>) {
        for k in 0..self.un_ops.len() {
            out.push(SAct::Un(k));
        }
        for k in 0..self.bin_ops.len() {
            for j in (0..self.pool.len()).chain([usize::MAX]) {
                out.push(SAct::Bin(k, j, false));
                out.push(SAct::Bin(k, j, true));
            }
        }
        if hist.len() == 1 {
            out.push(SAct::Unknown);
        }
    }
    fn max_len(&self) -> usize {
        self.max_len
    }
    fn describe(&self, hist: &[SAct]) -> Value {
        json!(hist
            .iter()
            .map(|a| match a {
                SAct::Init(i, d, tw) => format!("{}{} {:?}", if *tw { "[second factory, same operators in reverse table order] " } else { "" }, ["FlatEx::parse", "DeepEx::parse", "FlatEx::parse_wo_compile"][*d as usize], self.pool[*i].0),
                SAct::Un(k) => format!("operate_unary({:?})", self.table.ops[self.un_ops[*k] as usize].name),
                SAct::Bin(k, j, left) => format!(
                    "{}operate_binary({}, {:?})",
                    if *left { "other." } else { "" },
                    if *j == usize::MAX { "copy of self".to_string() } else { format!("{:?}", self.pool[*j].0) },
                    self.table.ops[self.bin_ops[*k] as usize].name
                ),
                SAct::Unknown => "operate_unary/binary(\"nope\")".to_string(),
            })
            .collect::<Vec<_>>())
    }
    fn run(&self, hist: &[SAct]) -> Outcome {
        set_table_n(0, &self.table);
        set_table_n(1, &self.twin);
        let SAct::Init(_, _, twin) = hist[0] else { unreachable!() };
        if twin {
            // both factories are used on this thread, the primary one first
            let _ = self.replay::<0>(hist);
            self.replay::<1>(hist)
        } else {
            self.replay::<0>(hist)
        }
    }
}
impl SymModel {
    fn replay<const N: usize>(&self, hist: &[SAct]) -> Outcome {
        let mut out = Outcome { key: String::new(), bad: vec![], terminal: false, steps: 0 };
        let SAct::Init(i0, deep, _) = hist[0] else { unreachable!() };
        let form = match (deep, N) {
            (0, 0) => "flat",
            (1, 0) => "deep",
            (2, 0) => "flat(uncompiled)",
            (1, _) => "deep(second factory)",
            (_, _) => "flat(second factory)",
        };
        let mut cur = match SEx::<N>::parse(self.pool[i0].0, deep) {
            Ok(e) => e,
            Err(e) => {
                out.bad.push((format!("{form}:parse"), format!("pool expression rejected: {}", e.msg())));
                out.terminal = true;
                return out;
            }
        };
        let mut reft = self.pool[i0].1.clone();
        for a in &hist[1..] {
            out.steps += 1;
            match a {
                SAct::Un(k) => {
                    let op = self.un_ops[*k];
                    reft = Tree::un(op, reft);
                    match cur.un(self.table.ops[op as usize].name) {
                        Ok(e) => cur = e,
                        Err(e) => {
                            out.bad.push((format!("{form}:operate_unary-failed"), format!("{:?}: {}", self.describe(hist), e.msg())));
                            out.terminal = true;
                            return out;
                        }
                    }
                }
                SAct::Bin(k, j, left) => {
                    let op = self.bin_ops[*k];
                    let (other, other_tree) = if *j == usize::MAX { (cur.clone(), reft.clone()) } else { (SEx::<N>::parse(self.pool[*j].0, deep).unwrap(), self.pool[*j].1.clone()) };
                    let name = self.table.ops[op as usize].name;
                    let r = if *left {
                        reft = Tree::bin(op, other_tree, reft);
                        other.bin(cur, name)
                    } else {
                        reft = Tree::bin(op, reft, other_tree);
                        cur.bin(other, name)
                    };
                    match r {
                        Ok(e) => cur = e,
                        Err(e) => {
                            out.bad.push((format!("{form}:operate_binary-failed"), format!("{:?}: {}", self.describe(hist), e.msg())));
                            out.terminal = true;
                            return out;
                        }
                    }
                }
                SAct::Unknown => {
                    out.terminal = true;
                    out.key = format!("unknown-name:{N}");
                    if cur.clone().un("nope").is_ok() || cur.clone().bin(cur.clone(), "nope").is_ok() {
                        out.bad.push((format!("{form}:unknown-operator-accepted"), format!("{:?}: applying the unknown operator \"nope\" did not fail", self.describe(hist))));
                    }
                    return out;
                }
                SAct::Init(..) => unreachable!(),
            }
        }
        // oracle: sorted union of the variables, same term modulo AC
        let vars = reft.vars();
        if cur.names() != vars {
            out.bad.push((format!("{form}:variable-union"), format!("{:?}: variables {:?} instead of the sorted union {vars:?}", self.describe(hist), cur.names())));
        } else {
            match cur.eval(&var_syms(vars.len())) {
                Ok(v) => {
                    let v = if N == 0 { v } else { remap(&v, &self.twin, &self.table) };
                    let want = reft.eval_sym(&vars, &self.table);
                    if v.contains_dflt() || nf_ac(&v, &self.table) != nf_ac(&want, &self.table) {
                        out.bad.push((format!("{form}:value:{}", canon_tree(&reft, &self.table)), format!("{:?}: value {} instead of {}", self.describe(hist), show(&v, &self.table), show(&want, &self.table))));
                    }
                }
                Err(e) => out.bad.push((format!("{form}:eval"), format!("{:?}: {}", self.describe(hist), e.msg()))),
            }
        }
        out.steps += 1;
        out.key = format!("{N}|{}|{}", cur.dump(), reft.show(&self.table));
        out
    }
}

// ---------------------------------------------------------------------------------------------
// (ii) exact rationals, arithmetic names: the neutral-element shortcuts

type QD = DeepEx<'static, Q, NumOps<Q>>;
type QF = FlatEx<Q, NumOps<Q>>;

#[derive(Clone, Debug, Hash, PartialEq, Eq)]
pub enum QAct {
    Init(usize),
    /// 0 add 1 sub 2 mul 3 div 4 pow; pool index (MAX = self); other on the left
    Op(u8, usize, bool),
    Neg,
    /// by-name application on the flat form (no shortcut): 0 + 1 - 2 * 3 / 4 ^
    FlatByName(u8, usize),
}
#[derive(Clone)]
pub struct QModel {
    pub pool: Arc<Vec<(&'static str, Tree)>>,
    pub table: Arc<Table>,
    pub max_len: usize,
}
const OPN: [&str; 5] = ["+", "-", "*", "/", "^"];

fn q_points(n: usize) -> Vec<Vec<Q>> {
    let vals = [Q::int(0), Q::int(1), Q::frac(-3, 2), Q::int(2), Q::frac(1, 3)];
    let mut out = vec![vec![]];
    for _ in 0..n {
        let mut nx = Vec::new();
        for p in &out {
            for v in &vals {
                let mut q: Vec<Q> = p.clone();
                q.push(v.clone());
                nx.push(q);
            }
        }
        out = nx;
    }
    out
}

/// value of the unsimplified form; None if an intermediate is undefined or a power has base
/// zero with a non-positive exponent
fn q_eval_strict(tree: &Tree, t: &Table, vars: &[String], vals: &[Q]) -> Option<Q> {
    Some(match tree {
        Tree::Lit(s) => Q::lit(s),
        Tree::Const(_) => return None,
        Tree::Var(v) => vals[vars.iter().position(|x| x == v)?].clone(),
        Tree::Un(k, a) => {
            let x = q_eval_strict(a, t, vars, vals)?;
            let r = Q::un(t.ops[*k as usize].name, &x);
            if !r.defined() {
                return None;
            }
            r
        }
        Tree::Bin(k, a, b) => {
            let x = q_eval_strict(a, t, vars, vals)?;
            let y = q_eval_strict(b, t, vars, vals)?;
            let name = t.ops[*k as usize].name;
            if name == "^" && x.is_exact_zero() && !y.positive_rational() {
                return None;
            }
            let r = Q::bin(name, &x, &y);
            if !r.defined() {
                return None;
            }
            r
        }
    })
}

impl Hist for QModel {
    type Act = QAct;
    fn roots(&self) -> Vec<Vec<QAct>> {
        (0..self.pool.len()).map(|i| vec![QAct::Init(i)]).collect()
    }
    fn enabled(&self, hist: &[QAct], out: &mut Vec<QAct>) {
        for op in 0..5u8 {
            for j in (0..self.pool.len()).chain([usize::MAX]) {
                out.push(QAct::Op(op, j, false));
                out.push(QAct::Op(op, j, true));
            }
        }
        out.push(QAct::Neg);
        if hist.len() + 1 == self.max_len {
            for op in 0..5u8 {
                for j in 0..self.pool.len() {
                    out.push(QAct::FlatByName(op, j));
                }
            }
        }
    }
    fn max_len(&self) -> usize {
        self.max_len
    }
    fn describe(&self, hist: &[QAct]) -> Value {
        json!(hist
            .iter()
            .map(|a| match a {
                QAct::Init(i) => format!("DeepEx::parse({:?})", self.pool[*i].0),
                QAct::Op(o, j, left) => {
                    let other = if *j == usize::MAX { "copy of self".to_string() } else { format!("{:?}", self.pool[*j].0) };
                    let opn = if *o == 4 { "pow" } else { OPN[*o as usize] };
                    if *left {
                        format!("{other} {opn} self")
                    } else {
                        format!("self {opn} {other}")
                    }
                }
                QAct::Neg => "-self".to_string(),
                QAct::FlatByName(o, j) => format!("FlatEx::from_deepex(self).operate_binary({:?}, {:?})", self.pool[*j].0, OPN[*o as usize]),
            })
            .collect::<Vec<_>>())
    }
    fn run(&self, hist: &[QAct]) -> Outcome {
        let mut out = Outcome { key: String::new(), bad: vec![], terminal: false, steps: 0 };
        let QAct::Init(i0) = hist[0] else { unreachable!() };
        let mut cur: QD = QD::parse(self.pool[i0].0).expect("pool parses");
        let mut reft = self.pool[i0].1.clone();
        let find = |n: &str, un: bool| self.table.ops.iter().position(|o| o.name == n && if un { o.unary } else { o.bin.is_some() }).unwrap() as u16;
        let mut flat_result: Option<QF> = None;
        for a in &hist[1..] {
            out.steps += 1;
            match a {
                QAct::Neg => {
                    reft = Tree::un(find("-", true), reft);
                    cur = match -cur {
                        Ok(e) => e,
                        Err(e) => {
                            out.bad.push(("neg-failed".into(), format!("{:?}: {}", self.describe(hist), e.msg())));
                            out.terminal = true;
                            return out;
                        }
                    }
                }
                QAct::Op(o, j, left) => {
                    let (other, ot) = if *j == usize::MAX { (cur.clone(), reft.clone()) } else { (QD::parse(self.pool[*j].0).expect("pool parses"), self.pool[*j].1.clone()) };
                    let (l, r, lt, rt) = if *left { (other, cur, ot, reft) } else { (cur, other, reft, ot) };
                    reft = Tree::bin(find(OPN[*o as usize], false), lt, rt);
                    let res = match o {
                        0 => l + r,
                        1 => l - r,
                        2 => l * r,
                        3 => l / r,
                        _ => l.pow(r),
                    };
                    cur = match res {
                        Ok(e) => e,
                        Err(e) => {
                            // only 0^0 of two constant expressions may be refused
                            out.terminal = true;
                            out.key = format!("refused:{}", reft.show(&self.table));
                            let vars = reft.vars();
                            let defined_somewhere = q_points(vars.len()).iter().any(|p| q_eval_strict(&reft, &self.table, &vars, p).is_some());
                            if defined_somewhere {
                                out.bad.push(("operation-refused".into(), format!("{:?}: {} although the unsimplified form has a value", self.describe(hist), e.msg())));
                            }
                            return out;
                        }
                    };
                }
                QAct::FlatByName(o, j) => {
                    let fl = QF::from_deepex(cur.clone()).expect("from_deepex");
                    let other = QF::parse(self.pool[*j].0).expect("pool parses");
                    reft = Tree::bin(find(OPN[*o as usize], false), reft, self.pool[*j].1.clone());
                    match fl.operate_binary(other, OPN[*o as usize]) {
                        Ok(e) => flat_result = Some(e),
                        Err(e) => {
                            out.bad.push(("flat-operate_binary-failed".into(), format!("{:?}: {}", self.describe(hist), e.msg())));
                            out.terminal = true;
                            return out;
                        }
                    }
                    out.terminal = true;
                }
                QAct::Init(_) => unreachable!(),
            }
        }
        let vars = reft.vars();
        let names: Vec<String> = match &flat_result {
            Some(f) => f.var_names().to_vec(),
            None => cur.var_names().to_vec(),
        };
        if names != vars {
            out.bad.push(("variable-union".into(), format!("{:?}: variables {names:?} instead of the sorted union {vars:?}", self.describe(hist))));
        } else {
            for p in q_points(vars.len()) {
                let Some(want) = q_eval_strict(&reft, &self.table, &vars, &p) else { continue };
                out.steps += 1;
                let got = match &flat_result {
                    Some(f) => f.eval(&p),
                    None => cur.eval(&p),
                };
                match got {
                    Ok(g) if g == want => {}
                    Ok(g) => {
                        out.bad.push((format!("value:{}", crate::c05::canon_ops(&reft, &self.table)), format!("{:?}: at {p:?} the result evaluates to {g:?}, the operators applied to the operands' values give {want:?}", self.describe(hist))));
                        break;
                    }
                    Err(e) => {
                        out.bad.push(("eval".into(), format!("{:?}: {}", self.describe(hist), e.msg())));
                        break;
                    }
                }
            }
        }
        out.key = match &flat_result {
            Some(f) => format!("{f:?}"),
            None => format!("{cur:?}|{}", reft.show(&self.table)),
        };
        out
    }
}

fn read_pool(texts: &[&'static str], t: &Table, lk: LitKind) -> Vec<(&'static str, Tree)> {
    texts
        .iter()
        .map(|s| match spec::read(s, t, lk) {
            SpecResult::Ok(tr) => (*s, tr),
            o => {
                println!("MACHINERY-FAILURE property=C10 pool text {s:?}: {o:?}");
                std::process::exit(2)
            }
        })
        .collect()
}

/// long accumulating histories (listed, not enumerated): two binary operators in alternation,
/// the other operand on the right / on the left / alternating, a unary operator at every fourth
/// step; every prefix is replayed and judged
fn long_histories(m: &SymModel, rep: &mut Report, len: usize) {
    let find = |name: &str| m.pool.iter().position(|(t, _)| *t == name).expect("pool entry");
    let (ix, iy, i1) = (find("x"), find("y"), find("1"));
    let operands = [iy, ix, i1, usize::MAX];
    let mut hists: Vec<Vec<SAct>> = Vec::new();
    for form in [0u8, 1, 2] {
        for a in 0..m.bin_ops.len() {
            for b in 0..m.bin_ops.len() {
                for side in 0..3usize {
                    let mut h = vec![SAct::Init(ix, form, false)];
                    for s in 0..len {
                        if s % 4 == 3 {
                            h.push(SAct::Un((s / 4) % m.un_ops.len()));
                        } else {
                            let left = match side {
                                0 => false,
                                1 => true,
                                _ => s % 2 == 1,
                            };
                            h.push(SAct::Bin(if s % 2 == 0 { a } else { b }, operands[(s + a) % if s < 6 { 3 } else { 4 }], left));
                        }
                    }
                    hists.push(h);
                }
            }
        }
    }
    let judge = |h: &Vec<SAct>| -> Option<(usize, Vec<(String, String)>)> {
        for l in 2..=h.len() {
            let out = match guard(|| m.run(&h[..l])) {
                Ok(o) => o,
                Err(p) => Outcome { key: String::new(), bad: vec![(format!("panic:{}", panic_site(&p)), format!("history {} panicked: {p}", m.describe(&h[..l])))], terminal: true, steps: 0 },
            };
            if !out.bad.is_empty() {
                return Some((l, out.bad));
            }
            if out.terminal {
                break;
            }
        }
        None
    };
    if let Some(target) = REPLAY_TARGET.get() {
        for h in &hists {
            for l in 2..=h.len() {
                if &m.describe(&h[..l]) == target {
                    println!("found among the long accumulating histories: {:?}", &h[..l]);
                    let code = match judge(&h[..l].to_vec()) {
                        Some((_, bad)) => {
                            for (sig, what) in bad {
                                println!("  BAD {sig}: {what}");
                            }
                            1
                        }
                        None => {
                            println!("  => every prefix of this history agrees with the reference");
                            0
                        }
                    };
                    std::process::exit(code);
                }
            }
        }
        return;
    }
    let accs = par_ranges(hists.len() as u64, 2, install_panic_hook, |st, en, acc| {
        for i in st..en {
            let h = &hists[i as usize];
            acc.states += h.len() as u64 - 1;
            acc.nontrivial += h.len() as u64 - 1;
            acc.evaluations += 1;
            acc.transitions += (h.len() * (h.len() + 1) / 2) as u64;
            if let Some((l, bad)) = judge(h) {
                for (sig, what) in bad {
                    acc.violate(Violation { signature: format!("long-history:{sig}"), what, case: json!({"engine": "c10", "history": m.describe(&h[..l])}) });
                }
            }
        }
    });
    for a in accs {
        rep.absorb(a);
    }
    rep.bounds.push(format!("long accumulating histories: {} histories of {len} applications (all ordered pairs of {} binary operators in alternation x operand on the right / left / alternating x flat, deep, uncompiled flat), every prefix judged: complete", hists.len(), m.bin_ops.len()));
}

/// every named helper method and constant constructor of `DeepEx<f64>` (default operators)
/// against the operator of that name applied by `operate_unary` and against the Rust primitive
/// on the operand's value; the overloaded operators and `pow` on every ordered pair of a pool
fn named_helpers_f64(rep: &mut Report) {
    type D = DeepEx<'static, f64>;
    let mut acc = Acc::default();
    let texts = ["x", "x*y+0.5", "-x", "2.5", "sin(x)-y", "0.25", "(x)", "x/(y+z)"];
    let pts: Vec<Vec<f64>> = vec![vec![0.37, 1.9, 0.6], vec![-0.81, 0.33, 2.5], vec![3.5, -2.25, 0.125], vec![0.0, 1.0, -1.0]];
    let same = |a: f64, b: f64| a.to_bits() == b.to_bits() || (a.is_nan() && b.is_nan());
    macro_rules! helpers {
        ($($name:ident => $prim:expr),*) => {{
            for t in texts {
                let Ok(e) = D::parse(t) else {
                    acc.violate(Violation { signature: "helpers:base-rejected".into(), what: format!("DeepEx::parse({t:?}) failed"), case: json!({"engine": "c10-helper", "text": t}) });
                    continue;
                };
                let names: Vec<String> = e.var_names().to_vec();
                $(
                    acc.evaluations += 1;
                    acc.states += 1;
                    acc.nontrivial += 1;
                    let r = guard(|| -> Result<(), String> {
                        let h = e.clone().$name().map_err(|x| format!("helper failed: {}", x.msg()))?;
                        let o = e.clone().operate_unary(stringify!($name)).map_err(|x| format!("operate_unary failed: {}", x.msg()))?;
                        if h.var_names() != names.as_slice() {
                            return Err(format!("variables {:?} instead of {names:?}", h.var_names()));
                        }
                        // (Debug form: a folded NaN is not equal to itself)
                        if format!("{h:?}") != format!("{o:?}") {
                            return Err(format!("differs structurally from operate_unary({:?}): {} vs {}", stringify!($name), h.unparse(), o.unparse()));
                        }
                        for p in &pts {
                            let vals = &p[..names.len()];
                            let inner = e.eval(vals).map_err(|x| x.msg().to_string())?;
                            let got = h.eval(vals).map_err(|x| x.msg().to_string())?;
                            let prim: fn(f64) -> f64 = $prim;
                            let want = prim(inner);
                            acc.transitions += 1;
                            if !same(got, want) {
                                return Err(format!("at {vals:?} the result evaluates to {got:?}, the primitive on the operand's value {inner:?} gives {want:?}"));
                            }
                        }
                        Ok(())
                    });
                    let bad = match r { Ok(Ok(())) => None, Ok(Err(m)) => Some(m), Err(p) => Some(format!("panic: {p}")) };
                    if let Some(m) = bad {
                        acc.violate(Violation { signature: format!("helper:{}", stringify!($name)), what: format!("DeepEx::parse({t:?}).{}(): {m}", stringify!($name)), case: json!({"engine": "c10-helper", "text": t, "helper": stringify!($name)}) });
                    }
                )*
            }
        }};
    }
    helpers!(abs => f64::abs, sin => f64::sin, cos => f64::cos, tan => f64::tan, sinh => f64::sinh, cosh => f64::cosh, tanh => f64::tanh, asin => f64::asin, acos => f64::acos, atan => f64::atan,
        signum => f64::signum, log => f64::ln, log2 => f64::log2, log10 => f64::log10, ln => f64::ln, round => f64::round, floor => f64::floor, ceil => f64::ceil, exp => f64::exp, sqrt => f64::sqrt,
        cbrt => f64::cbrt, fract => f64::fract, trunc => f64::trunc);
    // constants
    for (name, e, want) in [("pi", D::pi(), std::f64::consts::PI), ("e", D::e(), std::f64::consts::E), ("tau", D::tau(), std::f64::consts::TAU), ("one", D::one(), 1.0), ("zero", D::zero(), 0.0), ("from_num(2.5)", D::from_num(2.5), 2.5)] {
        acc.evaluations += 1;
        acc.states += 1;
        let ok = e.var_names().is_empty() && matches!(e.eval(&[]), Ok(v) if same(v, want));
        if !ok {
            acc.violate(Violation { signature: format!("constant:{name}"), what: format!("DeepEx::{name}() has variables {:?} and evaluates to {:?} instead of {want}", e.var_names(), e.eval(&[])), case: json!({"engine": "c10-helper", "constant": name}) });
        }
    }
    // overloaded operators and pow on every ordered pair
    for ta in texts {
        for tb in texts {
            let (Ok(a), Ok(b)) = (D::parse(ta), D::parse(tb)) else { continue };
            let mut un: Vec<String> = a.var_names().iter().chain(b.var_names().iter()).cloned().collect();
            un.sort();
            un.dedup();
            let all = ["x", "y", "z"];
            type R = Result<D, exmex::ExError>;
            let cases: Vec<(&str, Box<dyn Fn() -> R>, fn(f64, f64) -> f64)> = vec![
                ("+", Box::new(|| a.clone() + b.clone()), |p, q| p + q),
                ("-", Box::new(|| a.clone() - b.clone()), |p, q| p - q),
                ("*", Box::new(|| a.clone() * b.clone()), |p, q| p * q),
                ("/", Box::new(|| a.clone() / b.clone()), |p, q| p / q),
                ("pow", Box::new(|| a.clone().pow(b.clone())), |p, q| p.powf(q)),
            ];
            for (oname, f, prim) in cases {
                acc.evaluations += 1;
                acc.states += 1;
                acc.nontrivial += 1;
                let r = guard(|| -> Result<(), String> {
                    let c = f().map_err(|x| format!("failed: {}", x.msg()))?;
                    if c.var_names() != un.as_slice() {
                        return Err(format!("variables {:?} instead of the sorted union {un:?}", c.var_names()));
                    }
                    for p in &pts {
                        let val_of = |e: &D| -> Result<f64, String> {
                            let v: Vec<f64> = e.var_names().iter().map(|n| p[all.iter().position(|k| k == n).unwrap()]).collect();
                            e.eval(&v).map_err(|x| x.msg().to_string())
                        };
                        let (va, vb, got) = (val_of(&a)?, val_of(&b)?, val_of(&c)?);
                        let want = prim(va, vb);
                        // the shortcuts may only change the value where the unsimplified form is undefined
                        let close = same(got, want) || (got - want).abs() <= 4.0 * f64::EPSILON * want.abs().max(got.abs());
                        if !close && want.is_finite() && va.is_finite() && vb.is_finite() {
                            return Err(format!("at {p:?}: {got:?}, the operator applied to the operands' values ({va:?}, {vb:?}) gives {want:?}"));
                        }
                    }
                    Ok(())
                });
                let bad = match r { Ok(Ok(())) => None, Ok(Err(m)) => Some(m), Err(p) => Some(format!("panic: {p}")) };
                if let Some(m) = bad {
                    acc.violate(Violation { signature: format!("overloaded-f64:{oname}"), what: format!("DeepEx::parse({ta:?}) {oname} DeepEx::parse({tb:?}): {m}"), case: json!({"engine": "c10-helper", "a": ta, "b": tb, "op": oname}) });
                }
            }
        }
    }
    rep.absorb(acc);
    rep.bounds.push(format!("named helpers: 23 helper methods x {} deep expressions x {} points against operate_unary and the Rust primitive; 6 constant constructors; + - * / pow on all {} ordered pairs: complete", texts.len(), pts.len(), texts.len() * texts.len()));
}

/// replay of one case of the helper family: the family is re-run (it is small and fixed) and
/// the recorded case is looked up in its results
pub fn replay_helper(case: &Value) -> i32 {
    install_panic_hook();
    let mut rep = Report::new("C10", Tier::Quick);
    named_helpers_f64(&mut rep);
    println!("case: {case}");
    match rep.violations.iter().find(|v| &v.case == case) {
        Some(v) => {
            println!("  BAD {}: {}", v.signature, v.what);
            1
        }
        None => {
            println!("  => this case agrees with the reference");
            0
        }
    }
}

pub fn run(tier: Tier) -> i32 {
    let mut rep = Report::new("C10", tier);
    rep.rule = "explicit-state exploration of operator-application histories over pools of parsed expressions with overlapping and disjoint variable sets: (i) operate_unary/operate_binary by name on FlatEx (parsed and parse_wo_compile) and DeepEx with the symbolic data type and the universal table, and with a second operator factory holding the same operators in reverse table order used on the same thread (reference tree in lock-step, equality modulo AC); (ii) + - * / pow and neg on DeepEx over exact rationals incl. the neutral-element shortcuts, and by-name application on the flat form (exact equality on a rational grid incl. 0 and 1 wherever the unsimplified form is defined and no power has base zero with a non-positive exponent); distinct = unique structural dumps; non-trivial = at least one application".into();
    rep.assumptions = vec!["as C01 for (i); for (ii) exact agreement on a 5-point-per-variable rational grid".into()];
    install_panic_hook();
    // (i)
    let ut = universal_table(PRIO_MAPS[0]);
    // (incl. unary operators directly on literals, which only parse_wo_compile leaves pending)
    let pool_s = read_pool(&["x", "y", "x+y", "1*x", "z/x", "1", "f(y)-2", "2|1", "x*-2", "f(1)+y"], &ut, LitKind::Sym);
    let twin = Table::new(ut.ops.iter().rev().cloned().collect());
    let m = SymModel { table: ut.clone(), twin, pool: Arc::new(pool_s), un_ops: vec![5, 12], bin_ops: vec![0, 2, 4, 5, 9, 10], max_len: 3, forms: vec![(0, false), (1, false), (2, false), (0, true), (1, true)] };
    long_histories(&m, &mut rep, if tier.thorough() { 24 } else { 12 });
    explore(m.clone(), &mut rep, "c10", "symbolic/by-name, 5 forms (flat, deep, uncompiled flat, second factory flat / deep)");
    if tier.thorough() {
        // one more step for the two plain forms
        let m4 = SymModel { max_len: 4, forms: vec![(0, false), (1, false)], ..m };
        explore(m4, &mut rep, "c10", "symbolic/by-name, flat and deep, histories of length 4");
    }
    // (ii)
    let qt = num_table();
    // incl. operands that merely look neutral (a sign over a parenthesised 0 / 1) or are neutral
    // without being the literal
    let pool_q = read_pool(&["x", "y", "x+y", "2*x", "z*x", "0", "1", "1-1", "3-2", "x-x", "-((1))", "-(-((1)))", "-((0))+1"], &qt, LitKind::Number);
    let m = QModel { pool: Arc::new(pool_q), table: qt, max_len: if tier.thorough() { 4 } else { 3 } };
    explore(m, &mut rep, "c10", "rationals/shortcuts");
    crate::derived::run_derived(&mut rep, "C10", crate::derived::Focus::Apply, tier.thorough());
    named_helpers_f64(&mut rep);
    rep.finish()
}
