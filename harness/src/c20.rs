//! C20 - expressions are immutable values that can be shared across threads.
use crate::common::*;
use crate::hist::*;
use crate::report::*;
use crate::sched;
use crate::spec::{self, LitKind, SpecResult};
use crate::sym::*;
use exmex::prelude::*;
use exmex::{DeepEx, Express, FlatEx, MatchLiteral};
use serde_json::{json, Value};
use std::collections::BTreeSet;
use std::sync::{Arc, Mutex};

type FlatA = FlatEx<Sym, CfgOps<0>, SymMatcher>;
type DeepA<'a> = DeepEx<'a, Sym, CfgOps<0>, SymMatcher>;
type FlatB = FlatEx<Sym, CfgOps<1>, SymMatcher>;
type DeepB<'a> = DeepEx<'a, Sym, CfgOps<1>, SymMatcher>;

// compile-time part (also asserted by the separate probe crate /verif/probe)
fn _assert_send_sync() {
    fn ss<T: Send + Sync>() {}
    ss::<FlatA>();
    ss::<DeepA<'static>>();
    ss::<FlatEx<f64>>();
    ss::<DeepEx<'static, f64>>();
    ss::<exmex::FlatExVal<i32, f64>>();
}

fn table_a() -> Arc<Table> {
    Table::new(vec![OpDesc::bin_un("+", 0, true), OpDesc::bin("*", 1, true), OpDesc::bin_un("-", 0, false), OpDesc::bin("/", 1, false), OpDesc::un("f"), OpDesc::bin("**", 2, false)])
}
/// same names (one of them a prefix of another), equally many operators, other priorities,
/// other slots
fn table_b() -> Arc<Table> {
    Table::new(vec![OpDesc::bin("**", 2, false), OpDesc::un("f"), OpDesc::bin("/", 0, false), OpDesc::bin_un("-", 1, false), OpDesc::bin("*", 0, true), OpDesc::bin_un("+", 1, true)])
}
fn set_tables() {
    set_table_n(0, &table_a());
    set_table_n(1, &table_b());
}

/// the last two: one level with 18 binary operators; read with table A resp. table B the two
/// texts have the same sequence of operator *indices* (with other names and priorities)
const TEXTS: [&str; 7] = ["x*2+y*x-3", "f(x-1)/y", "1+2*x", "x", "2**x*y-x**y", "x+y-2/x**y+x-y/2**x+y-x/y**2+x-y/x**y+2-x", "x**y/2-x+y**x/y-2+x**y/x-y+2**x/y-x+y**2/x"];

#[derive(Clone, Debug, Hash, PartialEq, Eq)]
pub enum Job {
    /// evaluate the shared expression at point p
    EvalShared(u32),
    /// parse text with factory (0 = A, 1 = B) as flat / deep and evaluate at point p
    ParseEval(usize, u8, bool, u32),
    /// clone the shared expression, convert to deep, apply f, convert back, evaluate
    CloneConvert(u32),
    /// the same through eval_vec on a clone (consuming evaluation)
    EvalVecShared(u32),
    /// evaluate one of two very large shared expressions (beyond the tracker's inline capacity of
    /// 2048 operands) at point p
    EvalBig(usize, u32),
    /// the shared *uncompiled* expression (parse_wo_compile, foldable literals left of a repeated
    /// variable): eval / eval_vec on it at point p
    EvalW(u32),
    EvalVecW(u32),
    /// clone the shared uncompiled expression, compile() the clone, evaluate it (eval and eval_vec)
    CompileCloneW(u32),
    /// default float / value tables (global lazily initialised regexes)
    ParseF64(usize),
    ParseVal(usize),
    /// the value type over 64-bit integers (a second instantiation of the generic operators)
    ParseVal64(usize),
    /// six different pattern-based literal matchers (`literal_matcher_from_pattern!`) used one
    /// after the other on this thread, starting with matcher `rot`, then the first one again
    Matchers(usize),
    /// operator application (by name, on deep expressions) with one of two different factory
    /// types that carry the same type name (same identifier in sibling blocks of one function)
    /// and list their operators in different order
    SameNameFactory(usize),
    /// `eval_str` with the float width f32 (0) / f64 (1) on texts whose value depends on the
    /// width, starting with text `rot`; also FlatEx::<f32> / FlatEx::<f64> on the same texts
    EvalStr(u8, usize),
}

fn same_name_factory_job(which: usize) -> Result<(f64, f64, f64), String> {
    use exmex::{BinOp, Calculate, MakeOperators, Operator};
    fn plus<'a>() -> Operator<'a, f64> {
        Operator::make_bin("+", BinOp { apply: |a, b| a + b, prio: 0, is_commutative: true })
    }
    fn times<'a>() -> Operator<'a, f64> {
        Operator::make_bin("*", BinOp { apply: |a, b| a * b, prio: 2, is_commutative: true })
    }
    fn minus<'a>() -> Operator<'a, f64> {
        Operator::make_bin("-", BinOp { apply: |a, b| a - b, prio: 1, is_commutative: false })
    }
    macro_rules! with_factory {
        ($a:expr, $b:expr, $c:expr) => {{
            #[derive(Clone, Debug, PartialEq, Eq, PartialOrd, Ord)]
            struct Ops;
            impl MakeOperators<f64> for Ops {
                fn make<'a>() -> Vec<Operator<'a, f64>> {
                    vec![$a, $b, $c]
                }
            }
            let m = |e: exmex::ExError| e.msg().to_string();
            let x = DeepEx::<f64, Ops>::parse("x").map_err(m)?;
            let y = DeepEx::<f64, Ops>::parse("y*1").map_err(m)?;
            let s = x.clone().operate_binary(y.clone(), "+").map_err(m)?.eval(&[3.0, 4.0]).map_err(m)?;
            let p = x.clone().operate_binary(y.clone(), "*").map_err(m)?.eval(&[3.0, 4.0]).map_err(m)?;
            let d = x.operate_binary(y, "-").map_err(m)?.eval(&[3.0, 4.0]).map_err(m)?;
            Ok((s, p, d))
        }};
    }
    if which == 0 {
        with_factory!(plus(), times(), minus())
    } else {
        with_factory!(minus(), plus(), times())
    }
}

exmex::literal_matcher_from_pattern!(M0, r"^[0-9]+(\.[0-9]+)?");
exmex::literal_matcher_from_pattern!(M1, r"^[0-9]+");
exmex::literal_matcher_from_pattern!(M2, r"^([0-9]+\.[0-9]*|\.[0-9]+)");
exmex::literal_matcher_from_pattern!(M3, r"^[0-9]+(\.[0-9]+)?(e[0-9]+)?");
exmex::literal_matcher_from_pattern!(M4, r"^[0-9]{1,2}");
exmex::literal_matcher_from_pattern!(M5, r"^[0-9]+/[0-9]+|^[0-9]+");
const MATCHER_TEXTS: [&str; 4] = ["1.5+x", "2e1*x", ".5+x", "123+x"];
/// what matcher k makes of text j at x = 1 (None = must be rejected)
fn matcher_expectation(k: usize, j: usize) -> Option<f64> {
    match (k, j) {
        (0, 0) => Some(2.5),
        (0, 3) => Some(124.0),
        (2, 0) => Some(2.5),
        (2, 2) => Some(1.5),
        (3, 0) => Some(2.5),
        (3, 1) => Some(20.0),
        (3, 3) => Some(124.0),
        (1, 3) | (5, 3) => Some(124.0),
        // M4 reads "123" as 12 followed by 3: two operands side by side
        _ => None,
    }
}
fn matcher_outcome(k: usize, text: &str) -> Option<f64> {
    macro_rules! go {
        ($m:ty) => {
            FlatEx::<f64, exmex::FloatOpsFactory<f64>, $m>::parse(text).ok().and_then(|e| e.eval(&[1.0]).ok())
        };
    }
    match k {
        0 => go!(M0),
        1 => go!(M1),
        2 => go!(M2),
        3 => go!(M3),
        4 => go!(M4),
        _ => go!(M5),
    }
}

fn point(p: u32, n: usize) -> Vec<Sym> {
    (0..n as u32).map(|i| Sym::Lit(100 + 10 * p + i)).collect()
}

/// reference result of a text under a table at a point (schedule independent)
fn expected(text: &str, t: &Table, p: u32) -> Nf {
    thread_local! {
        static CACHE: std::cell::RefCell<std::collections::HashMap<(usize, usize, usize, u32), Nf>> = std::cell::RefCell::new(std::collections::HashMap::new());
    }
    // (texts are static or interned; the table is identified by its address and size)
    let key = (text.as_ptr() as usize, text.len(), t as *const Table as usize + t.ops.len(), p);
    if text.len() > 200 {
        if let Some(n) = CACHE.with(|c| c.borrow().get(&key).cloned()) {
            return n;
        }
    }
    let SpecResult::Ok(tree) = spec::read(text, t, LitKind::Sym) else { panic!("harness: bad text") };
    let vars = tree.vars();
    let n = nf_ac(&tree.eval_sym(&vars, t).subst(&point(p, vars.len())), t);
    if text.len() > 200 {
        CACHE.with(|c| c.borrow_mut().insert(key, n.clone()));
    }
    n
}

const TEXTS_W: [&str; 3] = ["2*3*x+y+y", "2*3*x+y+y*x", "1+2+y*x*y-x"];
const F64_TEXTS: [&str; 2] = ["sin(x)*2+max(x,1)", "{a b}^2-PI"];
const VAL_TEXTS: [&str; 3] = ["1 if x > 2 else to_int(2.5)", "[1,2,3].1+x", "fact(12+x)"];
const VAL64_TEXTS: [&str; 2] = ["fact(14+x)", "2^(61+x)-1+fact(13)"];

const BIG_SIZES: [usize; 2] = [2050, 2300];
fn big_text(k: usize) -> String {
    let n = BIG_SIZES[k];
    let mut t = String::with_capacity(n * 8);
    for i in 0..n {
        if i > 0 {
            t.push_str([" + ", " * ", " - ", " / "][(i * 7 + k) % 4]);
        }
        t.push_str(["x", "y", "z", "2"][(i + k) % 4]);
    }
    t
}
/// (expression, reference term over Var(0..2)) - parsed once per process; only evaluation is
/// repeated by the histories
fn big(k: usize) -> &'static (FlatA, Sym) {
    static CELLS: [std::sync::OnceLock<(FlatA, Sym)>; 2] = [std::sync::OnceLock::new(), std::sync::OnceLock::new()];
    CELLS[k].get_or_init(|| {
        let ta = table_a();
        let text = big_text(k);
        set_tables();
        let e = FlatA::parse(&text).expect("big expression parses");
        let SpecResult::Ok(tree) = spec::read(&text, &ta, LitKind::Sym) else { panic!("harness: big text") };
        let vars = tree.vars();
        let want = tree.eval_sym(&vars, &ta);
        (e, want)
    })
}

#[derive(Clone)]
pub enum Shared {
    F(Arc<FlatA>),
    D(Arc<DeepA<'static>>),
}

/// run one job; returns an observation string, or Err(description of the deviation)
pub fn run_job(job: &Job, shared: &Shared, shared_text: &'static str, sharedw: &Arc<Vec<FlatA>>) -> Result<String, String> {
    let (ta, tb) = (table_a(), table_b());
    match job {
        Job::EvalW(p) | Job::EvalVecW(p) | Job::CompileCloneW(p) => {
            for (wi, sharedw) in sharedw.iter().enumerate() {
                let text_w = TEXTS_W[wi];
                let vals = point(*p, sharedw.var_names().len());
                let want = expected(text_w, &ta, *p);
                let mut results = Vec::new();
                match job {
                    Job::EvalW(_) => results.push(("eval", sharedw.eval(&vals))),
                    Job::EvalVecW(_) => results.push(("eval_vec", sharedw.eval_vec(vals.clone()))),
                    _ => {
                        let mut c: FlatA = sharedw.clone();
                        c.compile();
                        results.push(("compiled clone eval", c.eval(&vals)));
                        results.push(("compiled clone eval_vec", c.eval_vec(vals.clone())));
                        results.push(("compiled clone eval_iter", c.eval_iter(vals.clone().into_iter())));
                    }
                }
                for (what, r) in results {
                    let v = r.map_err(|e| format!("{what} of the uncompiled shared expression failed: {}", e.msg()))?;
                    if v.contains_dflt() || nf_ac(&v, &ta) != want {
                        return Err(format!("{what} of the uncompiled shared expression {text_w:?} at point {p} gives {}", show(&v, &ta)));
                    }
                }
            }
            Ok(format!("{job:?}=ok"))
        }
        Job::EvalShared(p) | Job::EvalVecShared(p) => {
            let n = match shared {
                Shared::F(e) => e.var_names().len(),
                Shared::D(e) => e.var_names().len(),
            };
            let vals = point(*p, n);
            let r = match (shared, job) {
                (Shared::F(e), Job::EvalVecShared(_)) => e.eval_vec(vals),
                (Shared::F(e), _) => e.eval(&vals),
                (Shared::D(e), _) => e.eval(&vals),
            };
            let v = r.map_err(|e| format!("eval of the shared expression failed: {}", e.msg()))?;
            if v.contains_dflt() || nf_ac(&v, &ta) != expected(shared_text, &ta, *p) {
                return Err(format!("shared expression {shared_text:?} at point {p} evaluates to {}", show(&v, &ta)));
            }
            Ok(format!("{job:?}={}", show(&v, &ta)))
        }
        Job::ParseEval(i, fac, deep, p) => {
            let text = TEXTS[*i];
            let t = if *fac == 0 { &ta } else { &tb };
            macro_rules! pe {
                ($ty:ty) => {{
                    let e = <$ty>::parse(text).map_err(|e| format!("parse failed: {}", e.msg()))?;
                    let v = e.eval(&point(*p, e.var_names().len())).map_err(|e| format!("eval failed: {}", e.msg()))?;
                    v
                }};
            }
            let v = match (fac, deep) {
                (0, false) => pe!(FlatA),
                (0, true) => pe!(DeepA),
                (_, false) => pe!(FlatB),
                (_, true) => pe!(DeepB),
            };
            if v.contains_dflt() || nf_ac(&v, t) != expected(text, t, *p) {
                return Err(format!("{text:?} parsed with factory {} ({}) at point {p} evaluates to {}", if *fac == 0 { "A" } else { "B" }, if *deep { "deep" } else { "flat" }, show(&v, t)));
            }
            Ok(format!("{job:?}={}", show(&v, t)))
        }
        Job::CloneConvert(p) => {
            let fl: FlatA = match shared {
                Shared::F(e) => (**e).clone(),
                Shared::D(e) => FlatA::from_deepex((**e).clone()).map_err(|e| e.msg().to_string())?,
            };
            let d = fl.to_deepex().map_err(|e| e.msg().to_string())?;
            let d = d.operate_unary("f").map_err(|e| e.msg().to_string())?;
            let f2 = FlatA::from_deepex(d).map_err(|e| e.msg().to_string())?;
            let v = f2.eval(&point(*p, f2.var_names().len())).map_err(|e| e.msg().to_string())?;
            let want = expected(&format!("f({shared_text})"), &ta, *p);
            if nf_ac(&v, &ta) != want {
                return Err(format!("f(clone of shared) at point {p} evaluates to {}", show(&v, &ta)));
            }
            Ok(format!("{job:?}={}", show(&v, &ta)))
        }
        Job::EvalBig(k, p) => {
            let (e, want) = big(*k);
            let vals = point(*p, e.var_names().len());
            let v = e.eval(&vals).map_err(|er| format!("eval of the {}-operand expression failed: {}", BIG_SIZES[*k], er.msg()))?;
            if v.contains_dflt() || nf_ac(&v, &ta) != nf_ac(&want.subst(&vals), &ta) {
                return Err(format!("the shared {}-operand expression at point {p} evaluates to a wrong term (size {})", BIG_SIZES[*k], v.size()));
            }
            Ok(format!("{job:?}=ok"))
        }
        Job::ParseF64(i) => {
            let e = FlatEx::<f64>::parse(F64_TEXTS[*i]).map_err(|e| e.msg().to_string())?;
            let v = e.eval(&vec![1.25; e.var_names().len()]).map_err(|e| e.msg().to_string())?;
            let want = [1.25f64.sin() * 2.0 + 1.25f64.max(1.0), 1.25f64.powf(2.0) - std::f64::consts::PI][*i];
            if (v - want).abs() > 1e-12 {
                return Err(format!("{:?} evaluates to {v} instead of {want}", F64_TEXTS[*i]));
            }
            Ok(format!("{job:?}={v}"))
        }
        Job::ParseVal(i) => {
            let e = exmex::parse_val::<i32, f64>(VAL_TEXTS[*i]).map_err(|e| e.msg().to_string())?;
            let v = e.eval(&[exmex::Val::Int(1)]).map_err(|e| e.msg().to_string())?;
            let got = format!("{v:?}");
            // fact(13) does not fit into 32 bits: an error value
            let want = ["Int(2)", "Float(3.0)", "Error("][*i];
            if !got.starts_with(want) {
                return Err(format!("{:?} evaluates to {got} instead of {want}", VAL_TEXTS[*i]));
            }
            Ok(format!("{job:?}={}", want))
        }
        Job::Matchers(rot) => {
            for step in 0..=6 {
                let k = (rot + step) % 6;
                for (j, text) in MATCHER_TEXTS.iter().enumerate() {
                    let got = matcher_outcome(k, text);
                    let want = matcher_expectation(k, j);
                    let same = match (got, want) {
                        (Some(a), Some(b)) => (a - b).abs() < 1e-12,
                        (None, None) => true,
                        _ => false,
                    };
                    if !same {
                        return Err(format!("literal matcher M{k} on {text:?} (after the matchers {:?} on this thread): {got:?} instead of {want:?}", (0..step).map(|s| (rot + s) % 6).collect::<Vec<_>>()));
                    }
                }
            }
            Ok(format!("{job:?}=ok"))
        }
        Job::EvalStr(width, rot) => {
            let texts = ["1/3", "0.1+0.2", "sin(1)", "2^0.5*3", "1+2", "1/3+x"];
            for step in 0..texts.len() {
                let i = (rot + step) % texts.len();
                let text = texts[i];
                let (got, want): (String, String) = if *width == 0 {
                    let want: f32 = [1f32 / 3f32, 0.1f32 + 0.2f32, 1f32.sin(), 2f32.powf(0.5) * 3f32, 3f32, 1f32 / 3f32 + 0.25][i];
                    let got: Result<f32, String> = if i == 5 { FlatEx::<f32>::parse(text).and_then(|e| e.eval(&[0.25])).map_err(|e| e.msg().to_string()) } else { exmex::eval_str::<f32>(text).map_err(|e| e.msg().to_string()) };
                    (format!("{:?}", got.map(f32::to_bits)), format!("{:?}", Ok::<u32, String>(want.to_bits())))
                } else {
                    let want: f64 = [1f64 / 3f64, 0.1f64 + 0.2f64, 1f64.sin(), 2f64.powf(0.5) * 3f64, 3f64, 1f64 / 3f64 + 0.25][i];
                    let got: Result<f64, String> = if i == 5 { FlatEx::<f64>::parse(text).and_then(|e| e.eval(&[0.25])).map_err(|e| e.msg().to_string()) } else { exmex::eval_str::<f64>(text).map_err(|e| e.msg().to_string()) };
                    (format!("{:?}", got.map(f64::to_bits)), format!("{:?}", Ok::<u64, String>(want.to_bits())))
                };
                if got != want {
                    return Err(format!("{} of {text:?} over {} gives the bits {got} instead of {want}", if i == 5 { "FlatEx::parse + eval" } else { "eval_str" }, if *width == 0 { "f32" } else { "f64" }));
                }
            }
            Ok(format!("{job:?}=ok"))
        }
        Job::SameNameFactory(w) => {
            let got = same_name_factory_job(*w)?;
            if got != (7.0, 12.0, -1.0) {
                return Err(format!("x + y, x * y, x - y at (3, 4) with the operator factory variant {w}: {got:?} instead of (7, 12, -1)"));
            }
            Ok(format!("{job:?}=ok"))
        }
        Job::ParseVal64(i) => {
            let e = exmex::parse_val::<i64, f64>(VAL64_TEXTS[*i]).map_err(|e| e.msg().to_string())?;
            let v = e.eval(&[exmex::Val::Int(1)]).map_err(|e| e.msg().to_string())?;
            let got = format!("{v:?}");
            let want = ["Int(1307674368000)", "Int(4611686024654408703)"][*i];
            if got != want {
                return Err(format!("{:?} over Val<i64,f64> evaluates to {got} instead of {want}", VAL64_TEXTS[*i]));
            }
            Ok(format!("{job:?}={got}"))
        }
    }
}

#[derive(Clone, Debug)]
pub struct Body {
    pub name: &'static str,
    pub shared_text: &'static str,
    pub shared_deep: bool,
    pub threads: Vec<Vec<Job>>,
}

/// ((...((x+1)+1)...)+1) with `depth` nested groups: a deep expression nests one level per group
fn nested_text(depth: usize) -> &'static str {
    intern(&format!("{}x{}", "(".repeat(depth), "+1)".repeat(depth)))
}

pub fn bodies() -> Vec<Body> {
    use Job::*;
    vec![
        Body { name: "B1-eval-shared-flat", shared_text: TEXTS[0], shared_deep: false, threads: vec![vec![EvalShared(0), EvalShared(1)], vec![EvalShared(2), EvalVecShared(3)]] },
        Body { name: "B1-eval-shared-deep", shared_text: TEXTS[0], shared_deep: true, threads: vec![vec![EvalShared(0), EvalShared(1)], vec![EvalShared(2), EvalShared(3)]] },
        Body { name: "B2-parse-same-and-different", shared_text: TEXTS[3], shared_deep: false, threads: vec![vec![ParseEval(0, 0, false, 0), ParseEval(4, 1, true, 1)], vec![ParseEval(4, 1, false, 2), ParseEval(4, 0, true, 3)]] },
        Body { name: "B2-parse-default-tables", shared_text: TEXTS[3], shared_deep: false, threads: vec![vec![ParseEval(2, 0, false, 0), ParseVal(0), ParseF64(0)], vec![ParseF64(1), ParseEval(2, 1, false, 1), ParseVal(1)]] },
        Body { name: "B2-value-type-two-integer-widths", shared_text: TEXTS[3], shared_deep: false, threads: vec![vec![ParseVal(2), ParseVal64(0)], vec![ParseVal64(1), ParseVal(2)]] },
        Body { name: "B2-equally-named-operator-factories", shared_text: TEXTS[3], shared_deep: false, threads: vec![vec![SameNameFactory(0), SameNameFactory(1)], vec![SameNameFactory(1), SameNameFactory(0)]] },
        Body { name: "B2-index-aligned-long-levels-of-two-factories", shared_text: TEXTS[3], shared_deep: false, threads: vec![vec![ParseEval(5, 0, true, 0), ParseEval(6, 1, true, 1)], vec![ParseEval(6, 1, true, 2), ParseEval(5, 0, true, 3)]] },
        Body { name: "B2-eval_str-two-float-widths", shared_text: TEXTS[3], shared_deep: false, threads: vec![vec![EvalStr(0, 0), EvalStr(1, 2)], vec![EvalStr(1, 0), EvalStr(0, 3)]] },
        Body { name: "B2-six-literal-matchers", shared_text: TEXTS[3], shared_deep: false, threads: vec![vec![Matchers(0)], vec![Matchers(3)]] },
        Body { name: "B3-convert-clone-while-evaluating", shared_text: TEXTS[1], shared_deep: false, threads: vec![vec![CloneConvert(0)], vec![EvalShared(1), EvalShared(2)]] },
        Body { name: "B4-uncompiled-shared-evalvec-and-compiled-clones", shared_text: TEXTS[3], shared_deep: false, threads: vec![vec![EvalVecW(0), CompileCloneW(1)], vec![CompileCloneW(2), EvalVecW(3)]] },
        Body { name: "B5-deeply-nested-shared-deep-expression", shared_text: nested_text(270), shared_deep: true, threads: vec![vec![EvalShared(0)], vec![EvalShared(1)]] },
        Body { name: "B1-three-threads", shared_text: TEXTS[2], shared_deep: false, threads: vec![vec![EvalShared(0)], vec![EvalShared(1)], vec![ParseEval(2, 1, false, 2)]] },
        Body { name: "B3-three-threads", shared_text: TEXTS[0], shared_deep: true, threads: vec![vec![CloneConvert(0)], vec![EvalShared(1)], vec![ParseEval(0, 1, true, 2)]] },
    ]
}

#[derive(Default)]
pub struct Collected {
    pub bad: Vec<(String, String)>,
    pub outcomes: BTreeSet<String>,
    pub executions: u64,
    /// first schedule (choice prefix) under which each deviation / each outcome was observed
    pub sched_of: std::collections::BTreeMap<String, Vec<usize>>,
}
impl Collected {
    fn bad(&mut self, sig: String, what: String) {
        self.sched_of.entry(sig.clone()).or_insert_with(sched::current_choices);
        self.bad.push((sig, what));
    }
}

/// the closure executed under every schedule
fn make_body(b: Body, col: Arc<Mutex<Collected>>) -> impl Fn() + Send + Sync + 'static {
    move || {
        set_tables();
        set_yield(true);
        let big_shared = b.name.starts_with("B5");
        // (a parse failure of the shared text is a deviation like any other: it must not depend
        // on what ran before)
        let parsed: Result<Shared, String> = if big_shared {
            // parsed once per process (the text has 270 nesting levels); every execution shares it
            static DEEP: std::sync::OnceLock<Result<Arc<DeepA<'static>>, String>> = std::sync::OnceLock::new();
            DEEP.get_or_init(|| DeepA::parse(b.shared_text).map(Arc::new).map_err(|e| e.msg().to_string())).clone().map(Shared::D)
        } else if b.shared_deep {
            DeepA::parse(b.shared_text).map(|e| Shared::D(Arc::new(e))).map_err(|e| e.msg().to_string())
        } else {
            FlatA::parse(b.shared_text).map(|e| Shared::F(Arc::new(e))).map_err(|e| e.msg().to_string())
        };
        let shared = match parsed {
            Ok(s) => s,
            Err(m) => {
                set_yield(false);
                let mut c = col.lock().unwrap();
                c.bad(format!("{}:shared-expression-rejected", b.name), format!("the shared text of body {} was rejected in this execution: {m}", b.name));
                c.executions += 1;
                return;
            }
        };
        let sharedw: Arc<Vec<FlatA>> = Arc::new(TEXTS_W.iter().map(|t| FlatA::parse_wo_compile(t).expect("shared uncompiled parses")).collect());
        let dump0 = match &shared {
            Shared::F(e) => format!("{e:?}|{sharedw:?}"),
            Shared::D(_) if big_shared => String::new(),
            Shared::D(e) => format!("{e:?}|{sharedw:?}"),
        };
        let log: Arc<Mutex<Vec<(usize, String)>>> = Arc::new(Mutex::new(Vec::new()));
        let mut hs = Vec::new();
        for (tid, jobs) in b.threads.iter().cloned().enumerate() {
            let shared = shared.clone();
            let sharedw = sharedw.clone();
            let col = col.clone();
            let log = log.clone();
            let (bname, stext) = (b.name, b.shared_text);
            hs.push(shuttle::thread::spawn(move || {
                for job in &jobs {
                    match guard(|| run_job(job, &shared, stext, &sharedw)) {
                        Ok(Ok(obs)) => log.lock().unwrap().push((tid, obs)),
                        Ok(Err(m)) => col.lock().unwrap().bad(format!("{bname}:deviation:{job:?}"), m),
                        Err(p) => col.lock().unwrap().bad(format!("{bname}:panic:{job:?}"), format!("panic: {p}")),
                    }
                }
            }));
        }
        for h in hs {
            let _ = h.join();
        }
        set_yield(false);
        let dump1 = match &shared {
            Shared::F(e) => format!("{e:?}|{sharedw:?}"),
            Shared::D(_) if big_shared => String::new(),
            Shared::D(e) => format!("{e:?}|{sharedw:?}"),
        };
        let mut c = col.lock().unwrap();
        if dump0 != dump1 {
            c.bad(format!("{}:shared-expression-modified", b.name), "the structural dump of the shared expression changed during concurrent evaluation".into());
        }
        // outcome = per-thread observation sequences (order across threads is schedule dependent)
        let mut l = log.lock().unwrap().clone();
        l.sort();
        c.sched_of.entry(format!("outcome:{l:?}")).or_insert_with(sched::current_choices);
        c.outcomes.insert(format!("{l:?}"));
        c.executions += 1;
    }
}

fn explore_body(b: &Body, bound: usize, rep: &mut Report) {
    if crate::hist::replaying() {
        return;
    }
    let col = Arc::new(Mutex::new(Collected::default()));
    let t0 = std::time::Instant::now();
    let st = sched::explore(bound, false, make_body(b.clone(), col.clone()));
    let c = col.lock().unwrap();
    rep.states += st.executions;
    rep.evaluations += st.executions;
    rep.nontrivial += st.with_preemption;
    rep.transitions += st.executions * b.threads.iter().map(|t| t.len() as u64).sum::<u64>();
    rep.count("schedules_with_at_least_one_preemption", st.with_preemption);
    rep.count("distinct_observed_outcomes(must be 1 per body and bound)", c.outcomes.len() as u64);
    if c.outcomes.len() > 1 {
        rep.violations.push(Violation {
            signature: format!("{}:schedule-dependent-observations", b.name),
            what: format!("{} distinct observation sets over the schedules of body {}: {:?}", c.outcomes.len(), b.name, c.outcomes.iter().take(3).collect::<Vec<_>>()),
            case: json!({"engine": "c20", "body": b.name, "bound": bound, "schedules": c.outcomes.iter().take(2).map(|o| c.sched_of.get(&format!("outcome:{o}")).cloned().unwrap_or_default()).collect::<Vec<_>>()}),
        });
    }
    for (sig, what) in &c.bad {
        rep.violations.push(Violation { signature: sig.clone(), what: what.clone(), case: json!({"engine": "c20", "body": b.name, "bound": bound, "schedule": c.sched_of.get(sig)}) });
    }
    if let Some(d) = &st.diverged {
        if c.bad.is_empty() && c.outcomes.len() <= 1 {
            machinery_failure("C20", &format!("body {} bound {bound}: {d} (uncontrolled nondeterminism, no deviation from the reference observed)", b.name));
        }
        // results already deviate from the schedule-independent reference: the executions of this
        // body are not repeatable because of state the library keeps between calls
        rep.notes.push(format!("body {} bound {bound}: {d}; exploration of this body stopped after {} schedules (deviations from the reference are reported above)", b.name, st.executions));
    }
    rep.bounds.push(format!(
        "{}: {} threads, preemption bound {bound}: {} schedules ({} with a preemption, up to {} scheduling points, max {} preemptions): complete in {:.1}s",
        b.name,
        b.threads.len(),
        st.executions,
        st.with_preemption,
        st.max_points,
        st.max_preemptions_seen,
        t0.elapsed().as_secs_f64()
    ));
    rep.sample(json!({"body": b.name, "threads": b.threads.iter().map(|t| format!("{t:?}")).collect::<Vec<_>>(), "bound": bound, "schedules": st.executions}));
}

/// determinism self-check: one recorded schedule replayed twice gives identical observations
fn replay_twice(b: &Body, rep: &mut Report) {
    if crate::hist::replaying() {
        return;
    }
    let col = Arc::new(Mutex::new(Collected::default()));
    let st = sched::explore(1, true, make_body(b.clone(), col.clone()));
    let Some(sch) = st.schedules.iter().rev().find(|s| s.iter().any(|c| *c != 0)).cloned() else { return };
    let mut outs = Vec::new();
    for _ in 0..2 {
        let col = Arc::new(Mutex::new(Collected::default()));
        let _ = sched::replay_one(sch.clone(), make_body(b.clone(), col.clone()));
        let c = col.lock().unwrap();
        outs.push(format!("{:?}|{:?}", c.outcomes, c.bad));
    }
    if outs[0] != outs[1] {
        machinery_failure("C20", &format!("schedule {sch:?} of body {} replays with different observations", b.name));
    }
    rep.count("schedules_replayed_twice_with_identical_observations", 1);
}

// ---------------------------------------------------------------------------------------------
// sequential histories (E2): hidden state between calls

#[derive(Clone)]
pub struct Seq {
    pub jobs: Arc<Vec<Job>>,
    pub max_len: usize,
}
impl Hist for Seq {
    type Act = usize;
    fn roots(&self) -> Vec<Vec<usize>> {
        (0..self.jobs.len()).map(|j| vec![j]).collect()
    }
    fn enabled(&self, _h: &[usize], out: &mut Vec<usize>) {
        out.extend(0..self.jobs.len());
    }
    fn max_len(&self) -> usize {
        self.max_len
    }
    fn describe(&self, h: &[usize]) -> Value {
        json!(h.iter().map(|j| format!("{:?}", self.jobs[*j])).collect::<Vec<_>>())
    }
    fn run(&self, h: &[usize]) -> Outcome {
        set_tables();
        set_yield(false);
        let mut out = Outcome { key: String::new(), bad: vec![], terminal: false, steps: 0 };
        let shared = Shared::F(Arc::new(FlatA::parse(TEXTS[0]).expect("shared parses")));
        let sharedw: Arc<Vec<FlatA>> = Arc::new(TEXTS_W.iter().map(|t| FlatA::parse_wo_compile(t).expect("shared uncompiled parses")).collect());
        let dump0 = match &shared {
            Shared::F(e) => format!("{e:?}|{sharedw:?}"),
            _ => String::new(),
        };
        let mut obs = Vec::new();
        for j in h {
            out.steps += 1;
            match run_job(&self.jobs[*j], &shared, TEXTS[0], &sharedw) {
                Ok(o) => obs.push(o),
                Err(m) => out.bad.push((format!("sequential:{:?}", self.jobs[*j]), format!("history {}: {m}", self.describe(h)))),
            }
        }
        if let Shared::F(e) = &shared {
            if format!("{e:?}|{sharedw:?}") != dump0 {
                out.bad.push(("sequential:shared-expression-modified".into(), format!("history {}", self.describe(h))));
            }
        }
        // every history is its own state: the observation of a call must not depend on what ran before
        out.key = format!("{h:?}");
        out
    }
}

/// replay of recorded schedules (choice prefixes, then always the first enabled task) of one body
pub fn replay(case: &Value) -> i32 {
    install_panic_hook();
    println!("case: {case}");
    if !case["history"].is_null() {
        return crate::hist::replay_by_search("C20", case);
    }
    let Some(bi) = bodies().iter().position(|b| Some(b.name) == case["body"].as_str()) else {
        println!("unknown body");
        return 2;
    };
    let to_vec = |v: &Value| -> Option<Vec<usize>> { v.as_array().map(|a| a.iter().map(|x| x.as_u64().unwrap_or(0) as usize).collect()) };
    let scheds: Vec<Vec<usize>> = match (to_vec(&case["schedule"]), case["schedules"].as_array()) {
        (Some(s), _) => vec![s],
        (None, Some(a)) => a.iter().filter_map(to_vec).collect(),
        _ => {
            println!("no schedule recorded for this case; re-run `verif check C20`");
            return 2;
        }
    };
    let mut outcomes = BTreeSet::new();
    let mut n_bad = 0;
    for sch in scheds {
        let col = Arc::new(Mutex::new(Collected::default()));
        let _ = sched::replay_one(sch.clone(), make_body(bodies()[bi].clone(), col.clone()));
        let c = col.lock().unwrap();
        println!("schedule {sch:?}:");
        for (s, w) in &c.bad {
            println!("  BAD {s}: {}", w.chars().take(400).collect::<String>());
            n_bad += 1;
        }
        for o in &c.outcomes {
            println!("  observations: {}", o.chars().take(400).collect::<String>());
            outcomes.insert(o.clone());
        }
    }
    if n_bad > 0 || outcomes.len() > 1 {
        println!("  => deviation from the schedule-independent reference reproduced");
        1
    } else {
        println!("  => no deviation under the recorded schedule(s)");
        0
    }
}

/// fresh-process replay of one schedule (first-use initialisation of the global regexes)
pub fn fresh_replay_main(args: &[String]) -> i32 {
    install_panic_hook();
    let bi: usize = args[2].parse().unwrap();
    let choices: Vec<usize> = if args[3].is_empty() { vec![] } else { args[3].split(',').map(|x| x.parse().unwrap()).collect() };
    let b = bodies()[bi].clone();
    let col = Arc::new(Mutex::new(Collected::default()));
    let _ = sched::replay_one(choices, make_body(b, col.clone()));
    let c = col.lock().unwrap();
    if c.bad.is_empty() && c.outcomes.len() == 1 {
        println!("OUTCOME {}", c.outcomes.iter().next().unwrap());
        0
    } else {
        for (s, w) in &c.bad {
            println!("BAD {s}: {w}");
        }
        1
    }
}

fn fresh_process_replays(bi: usize, rep: &mut Report) {
    if crate::hist::replaying() {
        return;
    }
    let b = bodies()[bi].clone();
    let col = Arc::new(Mutex::new(Collected::default()));
    let st = sched::explore(1, true, make_body(b.clone(), col));
    let exe = std::env::current_exe().expect("exe");
    let scheds = st.schedules.clone();
    let outcomes = Mutex::new(BTreeSet::new());
    let bads = Mutex::new(Vec::new());
    let next = std::sync::atomic::AtomicUsize::new(0);
    std::thread::scope(|s| {
        for _ in 0..crate::enumr::n_threads() {
            s.spawn(|| loop {
                let i = next.fetch_add(1, std::sync::atomic::Ordering::Relaxed);
                if i >= scheds.len() {
                    break;
                }
                let arg = scheds[i].iter().map(|c| c.to_string()).collect::<Vec<_>>().join(",");
                let o = std::process::Command::new(&exe).args(["c20-replay", &bi.to_string(), &arg]).output().expect("spawn");
                let so = String::from_utf8_lossy(&o.stdout).to_string();
                if o.status.success() {
                    outcomes.lock().unwrap().insert(so.lines().find(|l| l.starts_with("OUTCOME")).unwrap_or("").to_string());
                } else {
                    bads.lock().unwrap().push((scheds[i].clone(), so));
                }
            });
        }
    });
    let outcomes = outcomes.into_inner().unwrap();
    rep.states += scheds.len() as u64;
    rep.transitions += scheds.len() as u64;
    rep.count("schedules_replayed_in_a_fresh_process(first-use initialisation)", scheds.len() as u64);
    for (sch, so) in bads.into_inner().unwrap() {
        rep.violations.push(Violation { signature: format!("{}:fresh-process", b.name), what: format!("schedule {sch:?} in a fresh process: {}", so.chars().take(300).collect::<String>()), case: json!({"engine": "c20", "body": b.name, "schedule": sch}) });
    }
    if outcomes.len() > 1 {
        rep.violations.push(Violation { signature: format!("{}:fresh-process-outcomes-differ", b.name), what: format!("{outcomes:?}"), case: json!({"engine": "c20", "body": b.name}) });
    }
    rep.bounds.push(format!("{}: each of the {} schedules with <= 1 preemption replayed in a fresh process: complete", b.name, scheds.len()));
}

pub fn run(tier: Tier) -> i32 {
    let mut rep = Report::new("C20", tier);
    rep.rule = "schedules: real exmex code on shuttle threads under a preemption-bounded DFS scheduler (scheduling point = every call-back into the harness data type / operator factory / literal matcher), all schedules with <= b preemptions, b iterated 0,1,2(,3); sequential histories: two operator tables over the same data type with equally many operators in different slots and a prefix-related operator pair (`*`, `**`); all call sequences up to the length bound over 25 jobs (and one step longer over 14 of them; eval_str over two float widths; index-aligned levels of 18 operators read by two factories; two equally named operator factory types; value type over 32- and 64-bit integers; six pattern-based literal matchers in rotation) (incl. two shared expressions of 2050 / 2300 operands) in one process; observations must equal the schedule-independent reference; distinct = schedules / histories; non-trivial = schedule with at least one preemption".into();
    rep.assumptions = vec![
        "code between two call-backs runs atomically; lazy_static's Once is trusted (who initialises first is enumerated)".into(),
        "Send + Sync of FlatEx / DeepEx is asserted at compile time (harness and /verif/probe)".into(),
    ];
    install_panic_hook();
    set_tables();
    let bs = bodies();
    let max_b = if tier.thorough() { 3 } else { 2 };
    let mut work: Vec<(usize, usize)> = Vec::new();
    for (bi, b) in bs.iter().enumerate() {
        // bodies with three threads or very many scheduling points stop one bound earlier
        let three = b.threads.len() >= 3 || b.name.starts_with("B4") || b.name.starts_with("B5") || b.name.starts_with("B2-index");
        for bound in 0..=max_b {
            if three && bound > 2 {
                continue;
            }
            // (three evaluations of three expressions per job: ~400 scheduling points)
            if b.name.starts_with("B4") && bound + 1 > max_b {
                continue;
            }
            // (578 scheduling points: two preemptions are 167 000 schedules of four parses each on
            // one OS thread; the jobs of this body interfere at job granularity)
            if b.name.starts_with("B2-index") && bound > 1 {
                continue;
            }
            // (270 nested evaluations per thread: one preemption anywhere inside the first
            // evaluation already overlaps the two recursions completely)
            if b.name.starts_with("B5") && bound + 1 > max_b {
                continue;
            }
            work.push((bi, bound));
        }
        if tier.thorough() && !three && bi != 2 {
            work.push((bi, 4));
        }
        if !tier.thorough() && !three && bi != 2 {
            work.push((bi, 3));
        }
    }
    // every (body, bound) exploration runs on its own OS thread (shuttle keeps all tasks of one
    // exploration on the calling thread; the harness' tables and flags are thread-local)
    let next = std::sync::atomic::AtomicUsize::new(0);
    let parts: Mutex<Vec<(usize, Report)>> = Mutex::new(Vec::new());
    std::thread::scope(|sc| {
        for _ in 0..crate::enumr::n_threads().min(work.len()) {
            sc.spawn(|| loop {
                let i = next.fetch_add(1, std::sync::atomic::Ordering::Relaxed);
                if i >= work.len() {
                    break;
                }
                install_panic_hook();
                set_tables();
                let (bi, bound) = work[i];
                let mut r = Report::new("C20", tier);
                explore_body(&bs[bi], bound, &mut r);
                if bound == 1 {
                    replay_twice(&bs[bi], &mut r);
                }
                parts.lock().unwrap().push((i, r));
            });
        }
    });
    let mut parts = parts.into_inner().unwrap();
    parts.sort_by_key(|p| p.0);
    for (_, r) in parts {
        rep.states += r.states;
        rep.evaluations += r.evaluations;
        rep.transitions += r.transitions;
        rep.nontrivial += r.nontrivial;
        rep.merge_counters(&r.counters);
        rep.violations.extend(r.violations);
        rep.bounds.extend(r.bounds);
        for s in r.samples {
            rep.sample(s);
        }
    }
    fresh_process_replays(3, &mut rep);
    fresh_process_replays(2, &mut rep);
    fresh_process_replays(4, &mut rep);
    fresh_process_replays(5, &mut rep);
    fresh_process_replays(7, &mut rep);
    // sequential histories
    use Job::*;
    // all jobs up to a shorter length, the cheap core (no very large expressions) one step longer
    let jobs = vec![EvalShared(0), EvalVecShared(1), ParseEval(0, 0, false, 0), ParseEval(0, 1, false, 1), ParseEval(4, 0, true, 2), ParseEval(4, 1, true, 3), ParseEval(1, 1, false, 0), ParseEval(2, 0, true, 1), CloneConvert(2), EvalVecW(0), CompileCloneW(1), ParseF64(0), ParseVal(0), ParseVal(2), ParseVal64(0), Matchers(0), Matchers(4), SameNameFactory(0), SameNameFactory(1), ParseEval(5, 0, true, 0), ParseEval(6, 1, true, 1), EvalStr(0, 0), EvalStr(1, 0), EvalBig(0, 0), EvalBig(1, 1)];
    let core = vec![EvalVecShared(1), ParseEval(0, 0, false, 0), ParseEval(4, 1, true, 3), ParseEval(2, 0, true, 1), CloneConvert(2), CompileCloneW(1), ParseF64(0), ParseVal(2), ParseVal64(0), Matchers(4), SameNameFactory(0), SameNameFactory(1), EvalStr(0, 0), EvalStr(1, 0)];
    let (l_all, l_core) = if tier.thorough() { (4, 5) } else { (3, 4) };
    let m = Seq { jobs: Arc::new(jobs), max_len: l_all };
    explore(m, &mut rep, "c20", "sequential call histories over 25 jobs (two factories with index-aligned levels of 18 operators; two equally named operator factory types; value type over 32- and 64-bit integers; eval_str over f32 and f64; six pattern-based literal matchers in rotation)");
    let m = Seq { jobs: Arc::new(core), max_len: l_core };
    explore(m, &mut rep, "c20", "sequential call histories over the 14 cheapest of these jobs, one step longer");
    rep.finish()
}
