//! C18 - derivatives of value-typed and piecewise expressions.
use crate::common::*;
use crate::enumr::*;
use crate::langs::*;
use crate::numty::*;
use crate::report::*;
use crate::spec::{self, LitKind, Renderer, SpecResult, Tree};
use crate::sym::Table;
use crate::valref::{self, from_val, Spec, RV};
use exmex::{Differentiate, Express, Val};
use serde_json::json;

/// value-type semantics (reference interpreter of C16) with a rounding bound on floats
#[derive(Clone, Debug)]
pub struct VN {
    pub rv: RV,
    pub e: f64,
}
impl VN {
    fn bad() -> VN {
        VN { rv: RV::Error, e: f64::INFINITY }
    }
    fn fe(&self) -> Option<Fe> {
        match &self.rv {
            RV::Int(i) => Some(Fe::exact(*i as f64)),
            RV::Float(f) => Some(Fe { v: *f, e: self.e }),
            _ => None,
        }
    }
    pub fn num(&self) -> Option<f64> {
        match &self.rv {
            RV::Int(i) => Some(*i as f64),
            RV::Float(f) => Some(*f),
            _ => None,
        }
    }
}
impl Num for VN {
    fn lit(s: &str) -> Self {
        match valref::parse_lit(s) {
            Some(RV::Float(f)) => VN { rv: RV::Float(f), e: 0.5 * 1.2e-16 * f.abs() },
            Some(rv) => VN { rv, e: 0.0 },
            None => VN::bad(),
        }
    }
    fn from_f64(x: f64) -> Self {
        VN { rv: RV::Float(x), e: 0.5 * 1.2e-16 * x.abs() * if x.fract() == 0.0 { 0.0 } else { 1.0 } }
    }
    fn defined(&self) -> bool {
        !matches!(self.rv, RV::Error) && self.e.is_finite()
    }
    fn is_exact_zero(&self) -> bool {
        self.e == 0.0 && matches!(self.num(), Some(x) if x == 0.0)
    }
    fn positive(&self) -> bool {
        matches!(self.num(), Some(x) if x - self.e > 0.0)
    }
    fn bin(name: &str, a: &VN, b: &VN) -> VN {
        if matches!(a.rv, RV::Error) || matches!(b.rv, RV::Error) {
            return VN::bad();
        }
        match valref::bin(name, &a.rv, &b.rv) {
            Spec::Exactly(rv) => {
                let e = match (&rv, a.fe(), b.fe()) {
                    // if / else select one operand: its bound is inherited
                    (RV::Float(_), _, _) if name == "if" => a.e,
                    (RV::Float(_), _, _) if name == "else" => {
                        if matches!(a.rv, RV::None) {
                            b.e
                        } else {
                            a.e
                        }
                    }
                    (RV::Float(_), Some(x), Some(y)) => <Fe as Num>::bin(name, &x, &y).e,
                    (RV::Float(_), _, _) => a.e.max(b.e),
                    _ => 0.0,
                };
                VN { rv, e }
            }
            _ => VN::bad(),
        }
    }
    fn un(name: &str, a: &VN) -> VN {
        if matches!(a.rv, RV::Error) {
            return VN::bad();
        }
        match valref::un(name, &a.rv) {
            Spec::Exactly(rv) => {
                let e = match (&rv, a.fe()) {
                    (RV::Float(_), Some(x)) => <Fe as Num>::un(name, &x).e,
                    _ => 0.0,
                };
                VN { rv, e }
            }
            _ => VN::bad(),
        }
    }
}

const XS: [f64; 8] = [0.37, 1.7, 2.9, 0.8, 4.3, 0.92, 2.2, -0.6];
const YS: [f64; 8] = [0.61, 2.3, 1.3, 3.4, 1.1, 0.13, 2.7, 1.9];

/// does a comparison in the tree sit closer than `margin` to its boundary at this point?
fn near_boundary(tree: &Tree, t: &Table, vars: &[String], vals: &[VN]) -> bool {
    match tree {
        Tree::Bin(k, a, b) => {
            let name = t.ops[*k as usize].name;
            if matches!(name, "<" | ">" | "<=" | ">=" | "==" | "!=") {
                let (x, y) = (eval_num::<VN>(a, t, vars, vals), eval_num::<VN>(b, t, vars, vals));
                if let (Some(p), Some(q)) = (x.num(), y.num()) {
                    if (p - q).abs() < 1e-3 {
                        return true;
                    }
                }
            }
            near_boundary(a, t, vars, vals) || near_boundary(b, t, vars, vals)
        }
        Tree::Un(_, a) => near_boundary(a, t, vars, vals),
        _ => false,
    }
}

/// largest magnitude of any sub-expression value at the point
fn max_intermediate(tree: &Tree, t: &Table, vars: &[String], vals: &[VN]) -> f64 {
    let here = eval_num::<VN>(tree, t, vars, vals).num().map(|x| x.abs()).unwrap_or(0.0);
    let sub = match tree {
        Tree::Un(_, a) => max_intermediate(a, t, vars, vals),
        Tree::Bin(_, a, b) => max_intermediate(a, t, vars, vals).max(max_intermediate(b, t, vars, vals)),
        _ => 0.0,
    };
    if here.is_nan() {
        f64::INFINITY
    } else {
        here.max(sub)
    }
}

fn canon_ops(tree: &Tree, t: &Table) -> String {
    crate::c05::canon_ops(tree, t)
}

fn judge(tree: &Tree, t: &Table, text: &str, acc: &mut Acc) {
    let vars = tree.vars();
    acc.states += 1;
    if vars.is_empty() {
        return;
    }
    acc.nontrivial += 1;
    for form in FORMS {
        judge_form(form, tree, t, text, &vars, acc);
    }
}

type VDeep<'a> = exmex::DeepEx<'a, Val<i32, f64>, exmex::ValOpsFactory<i32, f64>, exmex::ValMatcher>;
type VFlat = exmex::FlatExVal<i32, f64>;
/// the derivative as the property observes it: variable list, printed form, evaluation
struct Deriv<'a> {
    names: Vec<String>,
    text: String,
    eval: Box<dyn Fn(&[Val<i32, f64>]) -> exmex::ExResult<Val<i32, f64>> + 'a>,
}
impl<'a> Deriv<'a> {
    fn of<E: Express<'a, Val<i32, f64>> + 'a>(e: E) -> Deriv<'a> {
        Deriv { names: e.var_names().to_vec(), text: e.unparse().to_string(), eval: Box::new(move |v| e.eval(v)) }
    }
    fn var_names(&self) -> &[String] {
        &self.names
    }
    fn unparse(&self) -> &str {
        &self.text
    }
    fn eval(&self, v: &[Val<i32, f64>]) -> exmex::ExResult<Val<i32, f64>> {
        (self.eval)(v)
    }
}
/// flat (parse_val), deep (DeepEx::parse), flat converted to deep, deep converted to flat, flat
/// without constant folding (parse_wo_compile)
const FORMS: [&str; 5] = ["flat", "deep", "flat->deep", "deep->flat", "flat-uncompiled"];
fn derive<'a>(form: &str, text: &'a str, i: usize) -> exmex::ExResult<Deriv<'a>> {
    Ok(match form {
        "flat" => Deriv::of(exmex::parse_val::<i32, f64>(text)?.partial(i)?),
        "deep" => Deriv::of(VDeep::parse(text)?.partial(i)?),
        "flat->deep" => Deriv::of(exmex::parse_val::<i32, f64>(text)?.to_deepex()?.partial(i)?),
        "deep->flat" => Deriv::of(VFlat::from_deepex(VDeep::parse(text)?)?.partial(i)?),
        "flat-uncompiled" => Deriv::of(VFlat::parse_wo_compile(text)?.partial(i)?),
        // relaxed differentiation: operators without a rule (inside the condition) are
        // differentiated per operand / kept as they are
        "flat:per-operand" => Deriv::of(exmex::parse_val::<i32, f64>(text)?.partial_relaxed(i, exmex::MissingOpMode::PerOperand)?),
        "flat:none" => Deriv::of(exmex::parse_val::<i32, f64>(text)?.partial_relaxed(i, exmex::MissingOpMode::None)?),
        "deep:per-operand" => Deriv::of(VDeep::parse(text)?.partial_relaxed(i, exmex::MissingOpMode::PerOperand)?),
        "deep:none" => Deriv::of(VDeep::parse(text)?.partial_relaxed(i, exmex::MissingOpMode::None)?),
        "deep->flat:per-operand" => Deriv::of(VFlat::from_deepex(VDeep::parse(text)?)?.partial_relaxed(i, exmex::MissingOpMode::PerOperand)?),
        f => panic!("harness: unknown form {f}"),
    })
}
const RELAXED_FORMS: [&str; 5] = ["flat:per-operand", "flat:none", "deep:per-operand", "deep:none", "deep->flat:per-operand"];
const XS_INT: [i32; 8] = [1, 4, 5, 8, 3, 6, 2, 7];
const YS_INT: [i32; 8] = [3, 2, 7, 1, 4, 5, 6, 3];

fn judge_form(form: &str, tree: &Tree, t: &Table, text: &str, vars: &[String], acc: &mut Acc) {
    let fs = if form == "flat" { String::new() } else { format!("{form}:") };
    let fs = fs.as_str();
    // relaxed forms are only used for trees whose operators without a rule sit inside
    // conditions; they are evaluated at integer points (`%` is an integer operator)
    let relaxed = form.contains(':');
    for i in 0..vars.len() {
        acc.evaluations += 1;
        let lib = guard(|| derive(form, text, i));
        let d = match lib {
            Err(p) => {
                acc.violate(Violation { signature: format!("{fs}panic:{}", panic_site(&p)), what: format!("{fs}partial({i}) of {text:?} panicked: {p}"), case: json!({"engine": "c18", "text": text}) });
                continue;
            }
            Ok(Err(e)) => {
                if !relaxed && no_rule_class(tree, t, &vars[i]) != NoRule::None {
                    acc.count("refused(no rule)", 1);
                } else {
                    acc.violate(Violation { signature: format!("{fs}differentiation-failed:{}", canon_ops(tree, t)), what: format!("{fs}partial({i}) of {text:?} failed: {}", e.msg()), case: json!({"engine": "c18", "text": text}) });
                }
                continue;
            }
            Ok(Ok(d)) => d,
        };
        if d.var_names() != vars {
            acc.violate(Violation { signature: format!("{fs}variable-list"), what: format!("{fs}derivative of {text:?} lists {:?} instead of {vars:?}", d.var_names()), case: json!({"engine": "c18", "text": text}) });
            continue;
        }
        if !relaxed && no_rule_class(tree, t, &vars[i]) == NoRule::Hard {
            acc.count("no-rule operator above the variable accepted (C05's business for floats; not judged here)", 1);
            continue;
        }
        let mut conclusive = 0;
        for p in 0..XS.len() {
            let pt: Vec<f64> = (0..vars.len()).map(|k| if relaxed { (if k == 0 { XS_INT[p] } else { YS_INT[(p + k - 1) % YS_INT.len()] }) as f64 } else if k == 0 { XS[p] } else { YS[(p + k - 1) % YS.len()] }).collect();
            let vals: Vec<VN> = pt.iter().map(|x| VN { rv: if relaxed { RV::Int(*x as i32) } else { RV::Float(*x) }, e: 0.0 }).collect();
            if near_boundary(tree, t, &vars, &vals) {
                acc.count("points_near_a_branch_boundary(skipped)", 1);
                continue;
            }
            let seeded: Vec<Jet<VN>> = vals.iter().enumerate().map(|(k, v)| if k == i { Jet::variable(v.clone()) } else { Jet::constant(v.clone()) }).collect();
            let refj = eval_num::<Jet<VN>>(tree, t, &vars, &seeded);
            let Some(want) = refj.d.num().filter(|_| refj.defined()) else {
                acc.count("points_where_the_reference_is_not_a_number(skipped)", 1);
                continue;
            };
            // the library side carries no rounding bounds here: stay away from over-/underflow
            let huge = |x: f64| x != 0.0 && !(1e-30..1e30).contains(&x.abs());
            if huge(want) || refj.v.num().map(huge).unwrap_or(true) || max_intermediate(tree, t, &vars, &vals) > 1e30 {
                acc.count("points_with_extreme_magnitudes(inconclusive)", 1);
                continue;
            }
            if !(refj.d.e <= 1e-6 * want.abs() || refj.d.e <= 1e-9) {
                acc.count("points_with_large_rounding_bounds(inconclusive)", 1);
                continue;
            }
            acc.transitions += 1;
            let got = guard(|| d.eval(&pt.iter().map(|x| if relaxed { Val::Int(*x as i32) } else { Val::Float(*x) }).collect::<Vec<_>>()).map(|v| from_val(&v)));
            let got = match got {
                Ok(Ok(v)) => v,
                Ok(Err(e)) => {
                    acc.violate(Violation { signature: format!("{fs}derivative-eval-error"), what: format!("{fs}derivative of {text:?} cannot be evaluated: {}", e.msg()), case: json!({"engine": "c18", "text": text}) });
                    break;
                }
                Err(p) => {
                    acc.violate(Violation { signature: format!("{fs}panic:{}", panic_site(&p)), what: format!("{fs}derivative of {text:?} panicked at {pt:?}: {p}"), case: json!({"engine": "c18", "text": text}) });
                    break;
                }
            };
            let g = match got {
                RV::Int(i) => i as f64,
                RV::Float(f) => f,
                other => {
                    acc.violate(Violation {
                        signature: format!("{fs}derivative-not-a-number:{}", canon_ops(tree, t)),
                        what: format!("{fs}d/d{} of {text:?} at {pt:?} evaluates to {other:?}, the derivative of the selected branch is {want}", vars[i]),
                        case: json!({"engine": "c18", "text": text}),
                    });
                    break;
                }
            };
            conclusive += 1;
            if (g - want).abs() > 16.0 * refj.d.e + 1e-9 * g.abs().max(want.abs()) + 1e-300 {
                acc.violate(Violation {
                    signature: format!("{fs}wrong-derivative:{}", canon_ops(tree, t)),
                    what: format!("{fs}d/d{} of {text:?} at {pt:?} evaluates to {g:?} ({}), the derivative of the selected branch is {want:?}", vars[i], d.unparse()),
                    case: json!({"engine": "c18", "text": text}),
                });
                break;
            }
        }
        if conclusive >= 2 {
            acc.count("derivatives_confirmed_at_>=2_points", 1);
        } else {
            acc.count("derivatives_undecided(<2 conclusive points)", 1);
        }
    }
}

pub fn replay(case: &serde_json::Value) -> i32 {
    install_panic_hook();
    let t = val_table();
    let text = case["text"].as_str().unwrap_or("");
    let SpecResult::Ok(tree) = spec::read(text, &t, LitKind::Val) else { return 2 };
    let mut acc = Acc::default();
    judge(&tree, &t, text, &mut acc);
    for v in &acc.violations {
        println!("{}", v.what);
    }
    if acc.violations.is_empty() {
        println!("derivatives of {text:?} agree with the branch-wise reference");
        0
    } else {
        1
    }
}

fn campaign(t: &std::sync::Arc<Table>, al: Alphabet, sizes: &[(usize, usize)], filter: fn(&Tree, &Table) -> bool, rep: &mut Report, name: &str) {
    let space = TreeSpace::new(al, sizes);
    let t0 = std::time::Instant::now();
    let accs = par_ranges(space.total, 128, install_panic_hook, |st, en, acc| {
        let r = Renderer { t, lk: LitKind::Val };
        for i in st..en {
            let tree = space.get(i);
            if !filter(&tree, t) {
                continue;
            }
            let text = r.render_default(&tree);
            match spec::read(&text, t, LitKind::Val) {
                SpecResult::Ok(t2) if t2 == tree => {}
                o => {
                    println!("MACHINERY-FAILURE property=C18 reference does not read back {text:?}: {o:?}");
                    std::process::exit(2);
                }
            }
            judge(&tree, t, &text, acc);
            if i % 20011 == 0 {
                acc.sample(json!({"campaign": name, "text": text}));
            }
        }
    });
    for a in accs {
        rep.absorb(a);
    }
    rep.bounds.push(format!("{name}: {} trees (sizes {sizes:?}, filtered to well-typed shapes) x every variable x 6 float points: complete in {:.1}s", space.total, t0.elapsed().as_secs_f64()));
}

/// `F if E1 cmp E2 else G` (and the mirrored condition) for every arithmetic E1 with up to 3
/// (thorough: 4) leaves: the condition is a chain of several operators on one nesting level
fn condition_arithmetic(t: &std::sync::Arc<Table>, rep: &mut Report, th: bool) {
    let f = |n: &str| -> u16 { t.ops.iter().position(|o| o.name == n && o.bin.is_some()).unwrap() as u16 };
    let lv = |n: &str| if n.chars().next().unwrap().is_ascii_alphabetic() { Tree::var(n) } else { Tree::Lit(n.to_string()) };
    let sizes: Vec<(usize, usize)> = if th { vec![(1, 0), (2, 0), (3, 0), (4, 0)] } else { vec![(1, 0), (2, 0), (3, 0)] };
    let space = TreeSpace::new(Alphabet { leaves: vec![lv("x"), lv("y"), lv("2"), lv("1.5")], uns: vec![], bins: vec![f("+"), f("-"), f("*"), f("/")] }, &sizes);
    let cmps: Vec<u16> = if th { vec![f("<"), f(">="), f(">"), f("<=")] } else { vec![f("<"), f(">=")] };
    let e2s = [lv("2"), lv("y")];
    let (fi, fe) = (f("if"), f("else"));
    let pairs: Vec<(Tree, Tree)> = vec![
        (Tree::bin(f("*"), lv("x"), lv("x")), Tree::bin(f("*"), lv("3"), lv("x"))),
        (lv("x"), lv("2")),
        (Tree::bin(f("*"), lv("x"), lv("y")), Tree::bin(f("+"), lv("x"), lv("y"))),
        (lv("2.5"), Tree::bin(f("/"), lv("x"), lv("y"))),
    ];
    let per = cmps.len() * e2s.len() * 2 * pairs.len();
    let total = space.total * per as u64;
    let t0 = std::time::Instant::now();
    let accs = par_ranges(total, 128, install_panic_hook, |st, en, acc| {
        let r = Renderer { t, lk: LitKind::Val };
        for i in st..en {
            let e1 = space.get(i / per as u64);
            let mut k = (i % per as u64) as usize;
            let cmp = cmps[k % cmps.len()];
            k /= cmps.len();
            let e2 = e2s[k % e2s.len()].clone();
            k /= e2s.len();
            let mirrored = k % 2 == 1;
            k /= 2;
            let (fb, gb) = pairs[k].clone();
            let cond = if mirrored { Tree::bin(cmp, e2, e1) } else { Tree::bin(cmp, e1, e2) };
            if !cond.has_var() {
                continue;
            }
            let tree = Tree::bin(fe, Tree::bin(fi, fb, cond), gb);
            let text = r.render_default(&tree);
            match spec::read(&text, t, LitKind::Val) {
                SpecResult::Ok(t2) if t2 == tree => {}
                o => {
                    println!("MACHINERY-FAILURE property=C18 reference does not read back {text:?}: {o:?}");
                    std::process::exit(2);
                }
            }
            judge(&tree, t, &text, acc);
            if i % 20011 == 0 {
                acc.sample(json!({"campaign": "condition-arithmetic", "text": text}));
            }
        }
    });
    for a in accs {
        rep.absorb(a);
    }
    rep.bounds.push(format!("condition-arithmetic: {} arithmetic conditions (sizes {sizes:?}) x {} comparisons x 2 right-hand sides x mirrored x {} branch pairs = {total} piecewise trees x 5 forms x every variable x 6 float points: complete in {:.1}s", space.total, cmps.len(), pairs.len(), t0.elapsed().as_secs_f64()));
}

/// `F if (A % B) cmp C else G`: an operator without derivative rule inside the condition, through
/// the relaxed differentiation modes, at integer points
fn condition_norule(t: &std::sync::Arc<Table>, rep: &mut Report, th: bool) {
    let f = |n: &str| -> u16 { t.ops.iter().position(|o| o.name == n && o.bin.is_some()).unwrap() as u16 };
    let lv = |n: &str| if n.chars().next().unwrap().is_ascii_alphabetic() { Tree::var(n) } else { Tree::Lit(n.to_string()) };
    let operands = ["x", "y", "2", "3", "7"];
    let cmps: Vec<u16> = if th { vec![f("=="), f("<"), f(">="), f("!=")] } else { vec![f("=="), f("<")] };
    let rhs = ["0", "1", "y"];
    let nr_ops = if th { vec![f("%"), f("<<"), f(">>")] } else { vec![f("%")] };
    let (fi, fe) = (f("if"), f("else"));
    let pairs: Vec<(Tree, Tree)> = vec![(Tree::bin(f("*"), lv("x"), lv("x")), Tree::bin(f("*"), lv("3"), lv("x"))), (lv("x"), lv("2")), (Tree::bin(f("*"), lv("x"), lv("y")), Tree::bin(f("+"), lv("x"), lv("y")))];
    let mut trees = Vec::new();
    for &o in &nr_ops {
        for a in operands {
            for b in operands {
                for &c in &cmps {
                    for r in rhs {
                        for mirrored in [false, true] {
                            let e1 = Tree::bin(o, lv(a), lv(b));
                            let cond = if mirrored { Tree::bin(c, lv(r), e1) } else { Tree::bin(c, e1, lv(r)) };
                            if !cond.has_var() {
                                continue;
                            }
                            for (fb, gb) in &pairs {
                                trees.push(Tree::bin(fe, Tree::bin(fi, fb.clone(), cond.clone()), gb.clone()));
                            }
                        }
                    }
                }
            }
        }
    }
    // the piecewise expression below two stacked unary operators (in the deep form a level that
    // consists of one nested level only), for a slice of the trees
    let u = |n: &str| -> u16 { t.ops.iter().position(|o| o.name == n && o.unary).unwrap() as u16 };
    let n_plain = trees.len();
    for i in 0..n_plain {
        if th || i % 4 == 0 {
            for (o, inner) in [("sin", "-"), ("-", "sin"), ("-", "-")] {
                trees.push(Tree::un(u(o), Tree::un(u(inner), trees[i].clone())));
            }
        }
    }
    let accs = par_ranges(trees.len() as u64, 16, install_panic_hook, |st, en, acc| {
        let r = Renderer { t, lk: LitKind::Val };
        for i in st..en {
            let tree = &trees[i as usize];
            let text = r.render_default(tree);
            match spec::read(&text, t, LitKind::Val) {
                SpecResult::Ok(t2) if t2 == *tree => {}
                o => {
                    println!("MACHINERY-FAILURE property=C18 reference does not read back {text:?}: {o:?}");
                    std::process::exit(2);
                }
            }
            acc.states += 1;
            acc.nontrivial += 1;
            let vars = tree.vars();
            for form in RELAXED_FORMS {
                judge_form(form, tree, t, &text, &vars, acc);
            }
            if i % 211 == 0 {
                acc.sample(json!({"campaign": "condition-with-no-rule-operator", "text": text}));
            }
        }
    });
    for a in accs {
        rep.absorb(a);
    }
    rep.bounds.push(format!("condition-with-no-rule-operator: {} piecewise trees `F if (A op B) cmp C else G` (op in % << >>; a slice also below two stacked unary operators) x partial_relaxed (PerOperand, None) x flat / deep / deep->flat x every variable x 8 integer points: complete", trees.len()));
}

/// piecewise expressions with a very long branch: more than 64 operands on the level of the
/// comparison in the deep form
fn long_branches(t: &std::sync::Arc<Table>, rep: &mut Report, th: bool) {
    let ks: Vec<usize> = if th { vec![15, 16, 17, 31, 32, 33, 34, 40, 63, 64, 65, 70] } else { vec![16, 31, 32, 33, 34, 40] };
    let mut texts: Vec<String> = Vec::new();
    for &k in &ks {
        let sum = |v: &str| (1..=k).map(|c| format!("{c}.5*{v}")).collect::<Vec<_>>().join("+");
        let alt = (1..=k).map(|c| format!("{c}*{}", if c % 2 == 0 { "x" } else { "y" })).collect::<Vec<_>>().join("-");
        texts.push(format!("x*x if x > 0 else {}", sum("x")));
        texts.push(format!("{} if x > 0 else x*x", sum("x")));
        texts.push(format!("x*y if y >= x else {alt}"));
        texts.push(format!("{alt} if x != y else y*y"));
        texts.push(format!("{} if x < 2 else {}", sum("y"), sum("x")));
    }
    let accs = par_ranges(texts.len() as u64, 1, install_panic_hook, |st, en, acc| {
        for i in st..en {
            let text = &texts[i as usize];
            let SpecResult::Ok(tree) = spec::read(text, t, LitKind::Val) else {
                println!("MACHINERY-FAILURE property=C18 long-branch text not well-formed: {text}");
                std::process::exit(2)
            };
            acc.states += 1;
            acc.nontrivial += 1;
            let vars = tree.vars();
            for form in FORMS {
                judge_form(form, &tree, t, text, &vars, acc);
            }
            if i % 7 == 0 {
                acc.sample(json!({"campaign": "long-branches", "text_prefix": text.chars().take(80).collect::<String>()}));
            }
        }
    });
    for a in accs {
        rep.absorb(a);
    }
    rep.bounds.push(format!("long branches: {} piecewise texts whose longer branch has {ks:?} summands (2 operands each; the deep form keeps them on the level of the comparison) x 5 forms x every variable: complete", texts.len()));
}

/// `F if A cmp B else G` for all six comparisons, every pair of leaves (the differentiation
/// variable need not occur in the condition), strict differentiation in all forms
fn all_comparisons(t: &std::sync::Arc<Table>, rep: &mut Report) {
    let f = |n: &str| -> u16 { t.ops.iter().position(|o| o.name == n && o.bin.is_some()).unwrap() as u16 };
    let lv = |n: &str| if n.chars().next().unwrap().is_ascii_alphabetic() { Tree::var(n) } else { Tree::Lit(n.to_string()) };
    let leaves = ["x", "y", "2", "1.5", "3"];
    let cmps = [f("<"), f(">"), f("<="), f(">="), f("=="), f("!=")];
    let (fi, fe) = (f("if"), f("else"));
    let pairs: Vec<(Tree, Tree)> = vec![
        (Tree::bin(f("*"), lv("x"), lv("y")), Tree::bin(f("*"), lv("3"), lv("x"))),
        (Tree::bin(f("*"), lv("x"), lv("x")), lv("y")),
        (lv("x"), Tree::bin(f("/"), lv("y"), lv("2"))),
    ];
    let mut trees = Vec::new();
    for a in leaves {
        for b in leaves {
            for c in cmps {
                let cond = Tree::bin(c, lv(a), lv(b));
                if !cond.has_var() {
                    continue;
                }
                for (fb, gb) in &pairs {
                    trees.push(Tree::bin(fe, Tree::bin(fi, fb.clone(), cond.clone()), gb.clone()));
                }
            }
        }
    }
    let accs = par_ranges(trees.len() as u64, 8, install_panic_hook, |st, en, acc| {
        let r = Renderer { t, lk: LitKind::Val };
        for i in st..en {
            let tree = &trees[i as usize];
            let text = r.render_default(tree);
            match spec::read(&text, t, LitKind::Val) {
                SpecResult::Ok(t2) if t2 == *tree => {}
                o => {
                    println!("MACHINERY-FAILURE property=C18 reference does not read back {text:?}: {o:?}");
                    std::process::exit(2);
                }
            }
            judge(tree, t, &text, acc);
        }
    });
    for a in accs {
        rep.absorb(a);
    }
    rep.bounds.push(format!("all-comparisons: {} piecewise trees `F if A cmp B else G` (six comparisons, all pairs of 5 leaves, 3 branch pairs) x 5 forms x every variable: complete", trees.len()));
}

fn name_of<'a>(tree: &Tree, t: &'a Table) -> &'a str {
    match tree {
        Tree::Un(k, _) | Tree::Bin(k, _, _) => t.ops[*k as usize].name,
        _ => "",
    }
}
fn is_cmp(n: &str) -> bool {
    matches!(n, "<" | ">" | "<=" | ">=" | "==" | "!=")
}
/// well-typed piecewise shapes: comparisons only as the condition of `if`, `if` only as the
/// left operand of `else`
fn well_typed(tree: &Tree, t: &Table) -> bool {
    fn arith(tree: &Tree, t: &Table) -> bool {
        match tree {
            Tree::Lit(s) => s != "true" && s != "false",
            Tree::Const(_) | Tree::Var(_) => true,
            Tree::Un(_, a) => arith(a, t),
            Tree::Bin(k, a, b) => {
                let n = t.ops[*k as usize].name;
                if n == "else" {
                    // (f if c) else g
                    name_of(a, t) == "if" && if_ok(a, t) && arith(b, t)
                } else if n == "if" || is_cmp(n) {
                    false
                } else {
                    arith(a, t) && arith(b, t)
                }
            }
        }
    }
    fn if_ok(tree: &Tree, t: &Table) -> bool {
        match tree {
            Tree::Bin(_, f, c) => arith(f, t) && cond(c, t),
            _ => false,
        }
    }
    fn cond(tree: &Tree, t: &Table) -> bool {
        match tree {
            // the property quantifies over comparison conditions on the variables
            Tree::Bin(k, a, b) => is_cmp(t.ops[*k as usize].name) && arith(a, t) && arith(b, t) && tree.has_var(),
            _ => false,
        }
    }
    arith(tree, t)
}
fn has_piecewise(tree: &Tree, t: &Table) -> bool {
    match tree {
        Tree::Bin(k, a, b) => t.ops[*k as usize].name == "else" || has_piecewise(a, t) || has_piecewise(b, t),
        Tree::Un(_, a) => has_piecewise(a, t),
        _ => false,
    }
}

pub fn run(tier: Tier) -> i32 {
    let mut rep = Report::new("C18", tier);
    rep.rule = "all well-typed trees of the listed sizes over the value table (arithmetic, elementary functions, comparisons, if/else; integer and float literals mixed) incl. nested piecewise expressions with arithmetic around them; flat (parse_val), deep (DeepEx::parse) and converted forms; a family with every arithmetic chain of up to 3 (thorough 4) operands inside the condition; every variable; float-valued points at a margin from every branch boundary; oracle: conditions evaluated with the reference interpreter of the value type, forward-mode jets on the selected branch with rounding bounds; distinct = trees; non-trivial = has a variable".into();
    rep.assumptions = vec!["points are float-valued (integer-valued points make the function integer arithmetic, which has no derivative)".into(), "comparison within 1e-3 of its boundary = point skipped".into()];
    let t = val_table();
    let f = |names: &[&str], unary: bool| -> Vec<u16> { names.iter().map(|n| t.ops.iter().position(|o| o.name == *n && if unary { o.unary } else { o.bin.is_some() }).unwrap() as u16).collect() };
    let lv = |names: &[&str]| -> Vec<Tree> { names.iter().map(|n| if n.chars().next().unwrap().is_ascii_alphabetic() && *n != "true" && *n != "false" { Tree::var(n) } else { Tree::Lit(n.to_string()) }).collect() };
    let th = tier.thorough();
    // plain arithmetic / elementary functions with mixed int and float literals
    campaign(&t, Alphabet { leaves: lv(&["x", "y", "2", "2.5", "3"]), uns: f(&["-", "sin", "cos", "ln", "exp", "sqrt", "tanh", "atan"], true), bins: f(&["+", "-", "*", "/", "^"], false) }, &if th { vec![(1, 0), (1, 1), (1, 2), (2, 0), (2, 1), (2, 2), (3, 0), (3, 1)] } else { vec![(1, 0), (1, 1), (2, 0), (2, 1), (3, 0)] }, well_typed, &mut rep, "arithmetic-mixed-int-float");
    campaign(&t, Alphabet { leaves: lv(&["x", "y", "2", "2.5"]), uns: f(&["-", "sin", "ln", "sqrt"], true), bins: f(&["+", "*", "/", "^"], false) }, &if th { vec![(3, 2), (4, 0), (4, 1)] } else { vec![(3, 1), (4, 0)] }, well_typed, &mut rep, "arithmetic-n4");
    // piecewise: f if c else g
    let pw_bins = f(&["+", "*", "/", "-", "if", "else", "<", ">", ">=", "=="], false);
    campaign(&t, Alphabet { leaves: lv(&["x", "y", "2", "2.5", "3"]), uns: f(&["-", "sin", "sqrt"], true), bins: pw_bins.clone() }, &if th { vec![(4, 0), (4, 1), (5, 0)] } else { vec![(4, 0), (4, 1)] }, |tr, t| well_typed(tr, t) && has_piecewise(tr, t), &mut rep, "piecewise-n4");
    campaign(&t, Alphabet { leaves: lv(&["x", "2", "1.5"]), uns: f(&["-", "sin"], true), bins: f(&["*", "/", "if", "else", "<", ">="], false) }, &[(4, 1), (5, 0)], |tr, t| well_typed(tr, t) && has_piecewise(tr, t), &mut rep, "piecewise-n5-single-var");
    condition_arithmetic(&t, &mut rep, th);
    condition_norule(&t, &mut rep, th);
    all_comparisons(&t, &mut rep);
    long_branches(&t, &mut rep, th);
    if th {
        campaign(&t, Alphabet { leaves: lv(&["x", "y", "2", "1.5"]), uns: vec![], bins: f(&["+", "*", "/", "if", "else", "<", ">"], false) }, &[(5, 0), (6, 0)], |tr, t| well_typed(tr, t) && has_piecewise(tr, t), &mut rep, "piecewise-n6");
        campaign(&t, Alphabet { leaves: lv(&["x", "2"]), uns: vec![], bins: f(&["*", "if", "else", "<", ">"], false) }, &[(7, 0)], |tr, t| well_typed(tr, t) && has_piecewise(tr, t), &mut rep, "nested-piecewise-n7");
    } else {
        campaign(&t, Alphabet { leaves: lv(&["x", "2"]), uns: vec![], bins: f(&["*", "if", "else", "<"], false) }, &[(6, 0), (7, 0)], |tr, t| well_typed(tr, t) && has_piecewise(tr, t), &mut rep, "nested-piecewise-n7");
    }
    rep.finish()
}
