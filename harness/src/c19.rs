//! C19 - default float operators and constants compute the functions they name.
use crate::common::*;
use crate::enumr::*;
use crate::report::*;
use exmex::prelude::*;
use exmex::{Express, FloatOpsFactory, MakeOperators, Operator};
use serde_json::json;
use std::fmt::Debug;

/// the harness' own name -> std primitive table, for both float types
pub trait Prim: Copy + Debug + PartialEq + Send + Sync + 'static + exmex::DataType + num::Float {
    const NAME: &'static str;
    type Bits: Copy + Debug + PartialEq;
    fn bits(self) -> u64;
    fn from_bits64(b: u64) -> Self;
    fn nan(self) -> bool;
    fn un(name: &str, a: Self) -> Option<Self>;
    fn bin(name: &str, a: Self, b: Self) -> Option<Self>;
    fn cst(name: &str) -> Option<Self>;
    fn of_f64(x: f64) -> Self;
}
macro_rules! prim {
    ($t:ident, $bits:ident) => {
        impl Prim for $t {
            const NAME: &'static str = stringify!($t);
            type Bits = $bits;
            fn bits(self) -> u64 {
                self.to_bits() as u64
            }
            fn from_bits64(b: u64) -> Self {
                $t::from_bits(b as $bits)
            }
            fn nan(self) -> bool {
                self.is_nan()
            }
            fn of_f64(x: f64) -> Self {
                x as $t
            }
            fn un(name: &str, a: Self) -> Option<Self> {
                Some(match name {
                    "+" => a,
                    "-" => -a,
                    "abs" => $t::abs(a),
                    "signum" => $t::signum(a),
                    "sin" => $t::sin(a),
                    "cos" => $t::cos(a),
                    "tan" => $t::tan(a),
                    "asin" => $t::asin(a),
                    "acos" => $t::acos(a),
                    "atan" => $t::atan(a),
                    "sinh" => $t::sinh(a),
                    "cosh" => $t::cosh(a),
                    "tanh" => $t::tanh(a),
                    "asinh" => $t::asinh(a),
                    "acosh" => $t::acosh(a),
                    "atanh" => $t::atanh(a),
                    "floor" => $t::floor(a),
                    "round" => $t::round(a),
                    "ceil" => $t::ceil(a),
                    "trunc" => $t::trunc(a),
                    "fract" => $t::fract(a),
                    "exp" => $t::exp(a),
                    "sqrt" => $t::sqrt(a),
                    "cbrt" => $t::cbrt(a),
                    "ln" => $t::ln(a),
                    "log" => $t::ln(a),
                    "log2" => $t::log2(a),
                    "log10" => $t::log10(a),
                    _ => return None,
                })
            }
            fn bin(name: &str, a: Self, b: Self) -> Option<Self> {
                Some(match name {
                    "+" => a + b,
                    "-" => a - b,
                    "*" => a * b,
                    "/" => a / b,
                    "^" => $t::powf(a, b),
                    "atan2" => $t::atan2(a, b),
                    "min" => $t::min(a, b),
                    "max" => $t::max(a, b),
                    _ => return None,
                })
            }
            fn cst(name: &str) -> Option<Self> {
                Some(match name {
                    "PI" | "π" => std::f64::consts::PI as $t,
                    "E" | "e" => std::f64::consts::E as $t,
                    "TAU" | "τ" => std::f64::consts::TAU as $t,
                    _ => return None,
                })
            }
        }
    };
}
prim!(f32, u32);
prim!(f64, u64);

/// same special-value behaviour (NaN, infinities, signed zeros) and, for finite non-zero
/// results, equality up to 4 units in the last place ("to within floating-point rounding")
fn same<T: Prim>(a: T, b: T) -> bool {
    if a.bits() == b.bits() || (a.nan() && b.nan()) {
        return true;
    }
    if a.nan() || b.nan() || !a.is_finite() || !b.is_finite() || a == T::of_f64(0.0) || b == T::of_f64(0.0) {
        return false;
    }
    if (a < T::of_f64(0.0)) != (b < T::of_f64(0.0)) {
        return false;
    }
    let (x, y) = (a.bits() & (u64::MAX >> 1), b.bits() & (u64::MAX >> 1));
    let sign_mask = if T::NAME == "f32" { 0x7fff_ffffu64 } else { u64::MAX >> 1 };
    (x & sign_mask).abs_diff(y & sign_mask) <= 4
}
/// min/max on two zeros of different sign is the one case std does not pin down ("if one of the
/// arguments is NaN, then the other argument is returned" is documented, so NaN pairs are judged)
fn unspecified_pair<T: Prim>(name: &str, a: T, b: T) -> bool {
    (name == "min" || name == "max") && a == T::of_f64(0.0) && b == T::of_f64(0.0) && a.bits() != b.bits()
}

fn catalogue<T: Prim>() -> Vec<T> {
    let mut v: Vec<f64> = vec![
        0.0, -0.0, 1.0, -1.0, 0.5, -0.5, 2.0, -2.0, 10.0, 0.1, 3.0, -3.0, 1.5, 2.5, -2.5, 1e-5, 100.0, 1e10, -1e10, f64::INFINITY, f64::NEG_INFINITY, f64::NAN,
        std::f64::consts::PI, -std::f64::consts::PI, std::f64::consts::FRAC_PI_2, std::f64::consts::FRAC_PI_4, 2.0 * std::f64::consts::PI, std::f64::consts::E, 0.9999999, 1.0000001, 709.0, 710.0, 88.0, 89.0, -745.0, 0.99, -0.99,
    ];
    v.extend([1e-310, -1e-310, 1e-40, -1e-40]); // subnormals (f64 / f32)
    let mut out: Vec<T> = v.into_iter().map(T::of_f64).collect();
    out.push(T::min_positive_value());
    out.push(T::max_value());
    out.push(T::min_value());
    out.push(T::epsilon());
    out
}

/// the catalogue plus the 4 next representable values on either side of every finite entry
/// (domain edges such as asin(1 + 1 ulp), exact ties, the neighbours of 0.5 as exponent ...)
fn catalogue_with_neighbours<T: Prim>() -> Vec<T> {
    let base = catalogue::<T>();
    let mut out = base.clone();
    for v in base {
        if v.nan() || !v.is_finite() {
            continue;
        }
        let sign_mask: u64 = if T::NAME == "f32" { 1 << 31 } else { 1 << 63 };
        let (sign, mag) = (v.bits() & sign_mask, v.bits() & !sign_mask);
        for k in 1..=4u64 {
            // bit patterns are monotone in the magnitude
            out.push(T::from_bits64(sign | (mag + k)));
            if mag >= k {
                out.push(T::from_bits64(sign | (mag - k)));
            }
        }
    }
    let mut seen = std::collections::HashSet::new();
    out.retain(|v| seen.insert(v.bits()));
    out
}

fn describe_op<T: Prim>(o: &Operator<'static, T>) -> String {
    o.repr().to_string()
}

fn check_direct<T: Prim>(rep: &mut Report)
where
    <T as std::str::FromStr>::Err: Debug,
{
    let ops: Vec<Operator<'static, T>> = FloatOpsFactory::<T>::make();
    let cat = catalogue_with_neighbours::<T>();
    let mut acc = Acc::default();
    // every listed name must exist, nothing else
    let expected_un = ["+", "-", "abs", "signum", "sin", "cos", "tan", "asin", "acos", "atan", "sinh", "cosh", "tanh", "asinh", "acosh", "atanh", "floor", "round", "ceil", "trunc", "fract", "exp", "sqrt", "cbrt", "ln", "log2", "log10", "log"];
    let expected_bin = ["^", "*", "/", "+", "-", "atan2", "min", "max"];
    let expected_cst = ["PI", "π", "E", "e", "TAU", "τ"];
    for n in expected_un {
        if !ops.iter().any(|o| o.repr() == n && o.has_unary()) {
            acc.violate(Violation { signature: format!("{}:missing-unary:{n}", T::NAME), what: format!("default table for {} has no unary operator {n}", T::NAME), case: json!({"engine": "c19"}) });
        }
    }
    for n in expected_bin {
        if !ops.iter().any(|o| o.repr() == n && o.has_bin()) {
            acc.violate(Violation { signature: format!("{}:missing-binary:{n}", T::NAME), what: format!("default table for {} has no binary operator {n}", T::NAME), case: json!({"engine": "c19"}) });
        }
    }
    for n in expected_cst {
        if !ops.iter().any(|o| o.repr() == n && o.constant().is_some()) {
            acc.violate(Violation { signature: format!("{}:missing-constant:{n}", T::NAME), what: format!("default table for {} has no constant {n}", T::NAME), case: json!({"engine": "c19"}) });
        }
    }
    for o in &ops {
        let name = o.repr();
        if let Some(c) = o.constant() {
            acc.evaluations += 1;
            acc.transitions += 1;
            match T::cst(name) {
                Some(w) if same(w, c) => {}
                w => acc.violate(Violation { signature: format!("{}:constant:{name}", T::NAME), what: format!("constant {name} is {c:?}, expected {w:?}"), case: json!({"engine": "c19"}) }),
            }
        }
        if let Ok(f) = o.unary() {
            for &a in &cat {
                acc.evaluations += 1;
                acc.transitions += 1;
                acc.states += 1;
                let Some(w) = T::un(name, a) else {
                    acc.violate(Violation { signature: format!("{}:unknown-unary:{name}", T::NAME), what: format!("unary operator {name} is not in the documented list"), case: json!({"engine": "c19"}) });
                    break;
                };
                let g = f(a);
                if !same(w, g) {
                    acc.violate(Violation { signature: format!("{}:unary:{name}", T::NAME), what: format!("{}: {name}({a:?}) = {g:?}, the function of that name gives {w:?}", T::NAME), case: json!({"engine": "c19"}) });
                }
            }
        }
        if let Ok(b) = o.bin() {
            for &x in &cat {
                for &y in &cat {
                    acc.evaluations += 1;
                    acc.transitions += 1;
                    acc.states += 1;
                    let Some(w) = T::bin(name, x, y) else {
                        acc.violate(Violation { signature: format!("{}:unknown-binary:{name}", T::NAME), what: format!("binary operator {name} is not in the documented list"), case: json!({"engine": "c19"}) });
                        break;
                    };
                    if unspecified_pair(name, x, y) {
                        continue;
                    }
                    let g = (b.apply)(x, y);
                    if !same(w, g) {
                        acc.violate(Violation { signature: format!("{}:binary:{name}", T::NAME), what: format!("{}: {x:?} {name} {y:?} = {g:?}, documented meaning gives {w:?}", T::NAME), case: json!({"engine": "c19"}) });
                    }
                }
            }
        }
    }
    acc.nontrivial = acc.states;
    acc.sample(json!({"type": T::NAME, "operators": ops.iter().map(describe_op).collect::<Vec<_>>(), "catalogue_size": cat.len()}));
    rep.absorb(acc);
    rep.bounds.push(format!("{}: every operator and constant of FloatOpsFactory x special-value catalogue with the 4 neighbouring representable values on either side of each entry ({} values; all ordered pairs for binary operators), bit-for-bit: complete", T::NAME, cat.len()));
}

/// the same names through parsed expressions, infix and call form
fn check_parsed<T: Prim>(rep: &mut Report)
where
    <T as std::str::FromStr>::Err: Debug,
{
    let ops: Vec<Operator<'static, T>> = FloatOpsFactory::<T>::make();
    let cat = catalogue::<T>();
    let mut acc = Acc::default();
    for o in &ops {
        let name = o.repr();
        let mut texts: Vec<(String, usize, bool)> = Vec::new(); // (text, arity, is unary)
        if o.has_unary() {
            texts.push((format!("{name}(x)"), 1, true));
            texts.push((format!("{name} x"), 1, true));
        }
        if o.has_bin() {
            texts.push((format!("x {name} y"), 2, false));
            texts.push((format!("{name}(x, y)"), 2, false));
            texts.push((format!("(( x ) {name}( y ))"), 2, false));
        }
        if o.constant().is_some() {
            texts.push((name.to_string(), 0, false));
            texts.push((format!("({name})+x*0"), 1, false));
        }
        for (text, arity, is_un) in texts {
            let parsed = guard(|| (FlatEx::<T>::parse(&text), exmex::DeepEx::<T>::parse(&text)));
            let (f, d) = match parsed {
                Ok((Ok(f), Ok(d))) => (f, d),
                other => {
                    let _ = other;
                    acc.violate(Violation { signature: format!("{}:parse:{name}", T::NAME), what: format!("{:?} is not accepted for {}", text, T::NAME), case: json!({"engine": "c19", "text": text}) });
                    continue;
                }
            };
            let mut judge = |vals: &[T], want: T, acc: &mut Acc| {
                acc.evaluations += 1;
                acc.transitions += 2;
                for (form, got) in [("flat", f.eval(vals)), ("deep", d.eval(vals))] {
                    match got {
                        Ok(g) if same(g, want) => {}
                        g => acc.violate(Violation {
                            signature: format!("{}:parsed:{name}", T::NAME),
                            what: format!("{}: {form} {text:?} at {vals:?} = {g:?}, documented meaning gives {want:?}", T::NAME),
                            case: json!({"engine": "c19", "text": text}),
                        }),
                    }
                }
            };
            match arity {
                0 => judge(&[], T::cst(name).unwrap_or(T::of_f64(f64::NAN)), &mut acc),
                1 if o.constant().is_some() => {
                    // c + x*0 with finite x keeps the constant
                    let c = T::cst(name).unwrap_or(T::of_f64(f64::NAN));
                    judge(&[T::of_f64(2.0)], c + T::of_f64(2.0) * T::of_f64(0.0), &mut acc)
                }
                1 => {
                    for &a in &cat {
                        if let Some(w) = T::un(name, a) {
                            let _ = is_un;
                            judge(&[a], w, &mut acc);
                        }
                    }
                }
                _ => {
                    for &x in &cat {
                        for &y in &cat {
                            if unspecified_pair(name, x, y) {
                                continue;
                            }
                            if let Some(w) = T::bin(name, x, y) {
                                judge(&[x, y], w, &mut acc);
                            }
                        }
                    }
                }
            }
        }
    }
    acc.states = acc.evaluations;
    acc.nontrivial = acc.evaluations;
    rep.absorb(acc);
    rep.bounds.push(format!("{}: every operator through FlatEx::parse and DeepEx::parse in function, juxtaposed, infix and call form x catalogue: complete", T::NAME));
}

/// exhaustive / lattice sweeps over bit patterns
fn sweep_unary<T: Prim>(rep: &mut Report, low_zero_bits: u32, total_bits: u32)
where
    <T as std::str::FromStr>::Err: Debug,
{
    let n: u64 = 1u64 << (total_bits - low_zero_bits);
    let ops: Vec<Operator<'static, T>> = FloatOpsFactory::<T>::make();
    let un_ops: Vec<(&'static str, fn(T) -> T)> = ops.iter().filter_map(|o| o.unary().ok().map(|f| (o.repr(), f))).collect();
    let t0 = std::time::Instant::now();
    let accs = par_ranges(n, 1 << 16, || {}, |st, en, acc| {
        for (name, f) in &un_ops {
            let mut bad: Option<(T, T, T)> = None;
            let mut nbad = 0u64;
            for i in st..en {
                let a = T::from_bits64(i << low_zero_bits);
                let w = T::un(name, a).unwrap();
                let g = f(a);
                if !same(w, g) {
                    nbad += 1;
                    if bad.is_none() {
                        bad = Some((a, g, w));
                    }
                }
            }
            acc.evaluations += en - st;
            if let Some((a, g, w)) = bad {
                acc.violate(Violation {
                    signature: format!("{}:unary:{name}", T::NAME),
                    what: format!("{}: {name}({a:?}) = {g:?}, the function of that name gives {w:?} ({nbad} mismatches in this block)", T::NAME),
                    case: json!({"engine": "c19"}),
                });
            }
        }
    });
    for mut a in accs {
        a.states = a.evaluations;
        a.transitions = a.evaluations;
        a.nontrivial = a.evaluations;
        rep.absorb(a);
    }
    rep.bounds.push(format!(
        "{}: {} unary operators x {} argument bit patterns{}: complete in {:.1}s",
        T::NAME,
        un_ops.len(),
        n,
        if low_zero_bits == 0 { " (ALL bit patterns of the type)".to_string() } else { format!(" (all patterns whose {low_zero_bits} low bits are zero)") },
        t0.elapsed().as_secs_f64()
    ));
}

fn sweep_binary<T: Prim>(rep: &mut Report, kept_bits: u32, total_bits: u32)
where
    <T as std::str::FromStr>::Err: Debug,
{
    let n: u64 = 1u64 << kept_bits;
    let shift = total_bits - kept_bits;
    let ops: Vec<Operator<'static, T>> = FloatOpsFactory::<T>::make();
    let bin_ops: Vec<(&'static str, fn(T, T) -> T)> = ops.iter().filter_map(|o| o.bin().ok().map(|b| (o.repr(), b.apply))).collect();
    let t0 = std::time::Instant::now();
    let accs = par_ranges(n, 4, || {}, |st, en, acc| {
        for (name, f) in &bin_ops {
            let mut bad: Option<(T, T, T, T)> = None;
            for i in st..en {
                let x = T::from_bits64(i << shift);
                for j in 0..n {
                    let y = T::from_bits64(j << shift);
                    if unspecified_pair(name, x, y) {
                        continue;
                    }
                    let w = T::bin(name, x, y).unwrap();
                    let g = f(x, y);
                    if !same(w, g) && bad.is_none() {
                        bad = Some((x, y, g, w));
                    }
                }
            }
            acc.evaluations += (en - st) * n;
            if let Some((x, y, g, w)) = bad {
                acc.violate(Violation { signature: format!("{}:binary:{name}", T::NAME), what: format!("{}: {x:?} {name} {y:?} = {g:?}, documented meaning gives {w:?}", T::NAME), case: json!({"engine": "c19"}) });
            }
        }
    });
    for mut a in accs {
        a.states = a.evaluations;
        a.transitions = a.evaluations;
        a.nontrivial = a.evaluations;
        rep.absorb(a);
    }
    rep.bounds.push(format!("{}: {} binary operators x ({}^2 ordered pairs: all bit patterns with only the top {kept_bits} bits set): complete in {:.1}s", T::NAME, bin_ops.len(), n, t0.elapsed().as_secs_f64()));
}

pub fn run(tier: Tier) -> i32 {
    let mut rep = Report::new("C19", tier);
    rep.rule = "function pointers and constants obtained from FloatOpsFactory::<f32|f64>::make() and the same names through parsed expressions, compared for identical special-value behaviour (NaN, infinities, signed zeros) and equality within 4 ulp otherwise with the harness' own name -> std primitive table; arguments: special-value catalogue (all ordered pairs), bit-pattern lattices, and (thorough) every f32 bit pattern for unary operators; every evaluation is a distinct non-trivial case".into();
    rep.assumptions = vec!["min/max on two zeros of different sign are not pinned down by the Rust primitive and are skipped".into(), "libm determinism: the same primitive on the same argument gives the same bits within one process".into()];
    install_panic_hook();
    check_direct::<f64>(&mut rep);
    check_direct::<f32>(&mut rep);
    check_parsed::<f64>(&mut rep);
    check_parsed::<f32>(&mut rep);
    if tier.thorough() {
        sweep_unary::<f32>(&mut rep, 0, 32);
        sweep_unary::<f64>(&mut rep, 33, 64);
        sweep_binary::<f32>(&mut rep, 14, 32);
        sweep_binary::<f64>(&mut rep, 14, 64);
    } else {
        sweep_unary::<f32>(&mut rep, 4, 32);
        sweep_unary::<f64>(&mut rep, 38, 64);
        sweep_binary::<f32>(&mut rep, 12, 32);
        sweep_binary::<f64>(&mut rep, 12, 64);
    }
    rep.exhaustive = true;
    rep.finish()
}
