//! All token strings over a small alphabet up to a length bound (Sigma^{<=L}), in parallel.
use crate::common::*;
use crate::enumr::*;
use crate::report::*;
use crate::sym::*;
use std::sync::Arc;

pub struct Sweep<'a> {
    pub name: &'a str,
    pub tokens: Vec<&'a str>,
    pub max_len: usize,
    pub table: Arc<Table>,
    /// separator between the symbols (" " for token strings, "" for character strings)
    pub sep: &'a str,
}

/// calls `f(text, token_indices, acc)` for every string; texts are the tokens joined by one blank
pub fn sweep_strings(s: &Sweep, rep: &mut Report, f: &(dyn Fn(&str, &[usize], &mut Acc) + Sync)) {
    let space = StringSpace::new(s.tokens.len(), s.max_len);
    let t0 = std::time::Instant::now();
    let table = s.table.clone();
    let accs = par_ranges(
        space.total,
        4096,
        || {
            install_panic_hook();
            set_table(&table);
        },
        |st, en, acc| {
            let mut idxs = Vec::new();
            let mut text = String::new();
            for i in st..en {
                space.get(i, &mut idxs);
                text.clear();
                for (j, &k) in idxs.iter().enumerate() {
                    if j > 0 {
                        text.push_str(s.sep);
                    }
                    text.push_str(s.tokens[k]);
                }
                acc.evaluations += 1;
                f(&text, &idxs, acc);
            }
        },
    );
    for a in accs {
        rep.absorb(a);
    }
    rep.bounds.push(format!(
        "{}: all {} token strings of length 0..={} over {:?}: complete in {:.1}s",
        s.name,
        space.total,
        s.max_len,
        s.tokens,
        t0.elapsed().as_secs_f64()
    ));
}

pub fn std_tokens() -> Vec<&'static str> {
    vec!["(", ")", ",", "1", "2", "x", "{y z}", "+", "-", "*", "/", "cm", "f", "C"]
}
/// "macro" tokens: whole parenthesised groups count as one symbol, so that short sequences reach
/// sloppy texts such as a prefix operator followed by two groups (`/ ( x - y ) ( z )`)
pub fn macro_tokens() -> Vec<&'static str> {
    vec!["/", "+", "-", "cm", "f", "x", "1", "( x - y )", "( z )", "( 1 / x )", "f ( y )", "f ( x - y )", "- ( x / y )", "( x , y )", "(", ")"]
}
pub fn small_tokens() -> Vec<&'static str> {
    vec!["(", ")", ",", "1", "x", "y", "-", "+", "/", "cm", "f"]
}
