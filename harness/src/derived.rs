//! Derived expressions: histories of differentiation, conversion, operator application and
//! substitution on flat and deep expressions over floats with rounding bounds, in lock-step with
//! a reference (tree + *declared* variable list + symbolic reference differentiator).  Derived
//! expressions can list variables that no longer occur (a derivative keeps the variable list of
//! its antiderivative); the checks C04 / C09 / C10 / C11 each judge the steps their property
//! speaks about (`Focus`) - the other steps only prepare states.
use crate::c09::{Cmp, Ex};
#[allow(unused_imports)]
use crate::c09::Cmp as _;
use crate::hist::*;
use crate::numty::*;
use crate::report::*;
use crate::spec::{self, LitKind, SpecResult, Tree};
use crate::sym::Table;
use serde_json::{json, Value};
use std::sync::Arc;

#[derive(Clone, Debug, Hash, PartialEq, Eq)]
pub enum DAct {
    /// base index, form (0 = FlatEx::parse, 1 = DeepEx::parse, 2 = FlatEx::parse_wo_compile)
    Init(usize, u8),
    Partial(usize),
    /// (variable, order) through partial_nth
    Nth(usize, usize),
    Convert,
    Un(usize),
    /// operator, pool index, the pool expression on the left
    Bin(usize, usize, bool),
    /// declared variable k := pool expression j
    Subs(usize, usize),
    SubsNone,
    /// the current expression becomes the replacement of `u` in carrier c
    Into(usize),
    /// overloaded unary minus (deep expressions only)
    NegOp,
    /// named helper method of DeepEx (deep expressions only): index into HELPERS
    Helper(usize),
}
const HELPERS: [&str; 2] = ["cos", "exp"];

#[derive(Clone, Copy, Debug, PartialEq, Eq)]
pub enum Focus {
    /// C04: every step, variable lists only
    Names,
    /// C09: differentiation steps
    Diff,
    /// C10: operator application
    Apply,
    /// C11: substitution
    Subs,
    /// C03: conversion between the forms
    Convert,
    /// C06: nothing but panics
    Crash,
}
impl Focus {
    fn judges(self, a: &DAct) -> bool {
        match self {
            Focus::Names => true,
            Focus::Diff => matches!(a, DAct::Partial(_) | DAct::Nth(..)),
            Focus::Apply => matches!(a, DAct::Un(_) | DAct::Bin(..) | DAct::NegOp | DAct::Helper(_)),
            Focus::Subs => matches!(a, DAct::Subs(..) | DAct::SubsNone | DAct::Into(_)),
            Focus::Convert => matches!(a, DAct::Convert),
            Focus::Crash => false,
        }
    }
}

#[derive(Clone)]
pub struct Derive {
    pub table: Arc<Table>,
    /// (text, tree, differentiate with respect to this variable index first: a root that already
    /// lists a variable which no longer occurs)
    pub bases: Arc<Vec<(&'static str, Tree, Option<usize>)>>,
    /// (text, tree, differentiate with respect to this variable index first)
    pub pool: Arc<Vec<(&'static str, Tree, Option<usize>)>>,
    pub carriers: Arc<Vec<(&'static str, Tree)>>,
    pub uns: Vec<&'static str>,
    pub bins: Vec<&'static str>,
    pub max_len: usize,
    pub focus: Focus,
}

fn lit(s: &str) -> Tree {
    Tree::Lit(s.to_string())
}
fn op(t: &Table, name: &str, unary: bool) -> u16 {
    t.ops.iter().position(|o| o.name == name && if unary { o.unary } else { o.bin.is_some() }).unwrap_or_else(|| panic!("harness: operator {name} missing")) as u16
}
/// reference differentiator (no simplification; only evaluated)
pub fn diff_tree(tree: &Tree, var: &str, t: &Table) -> Tree {
    let b = |n: &str, x: Tree, y: Tree| Tree::bin(op(t, n, false), x, y);
    let u = |n: &str, x: Tree| Tree::un(op(t, n, true), x);
    match tree {
        Tree::Lit(_) | Tree::Const(_) => lit("0"),
        Tree::Var(v) => lit(if v == var { "1" } else { "0" }),
        Tree::Un(k, a) => {
            let da = diff_tree(a, var, t);
            let a = (**a).clone();
            match t.ops[*k as usize].name {
                "-" => u("-", da),
                "+" => da,
                "sin" => b("*", u("cos", a), da),
                "cos" => b("*", u("-", u("sin", a)), da),
                "exp" => b("*", u("exp", a), da),
                "ln" => b("/", da, a),
                n => panic!("harness: no reference rule for {n}"),
            }
        }
        Tree::Bin(k, x, y) => {
            let (dx, dy) = (diff_tree(x, var, t), diff_tree(y, var, t));
            let (x, y) = ((**x).clone(), (**y).clone());
            match t.ops[*k as usize].name {
                "+" => b("+", dx, dy),
                "-" => b("-", dx, dy),
                "*" => b("+", b("*", dx, y), b("*", x, dy)),
                "/" => b("/", b("-", b("*", dx, y.clone()), b("*", x, dy)), b("*", y.clone(), y)),
                "^" => {
                    let Tree::Lit(n) = &y else { panic!("harness: reference power rule needs a literal exponent") };
                    let n: i64 = n.parse().expect("integer exponent");
                    b("*", b("*", lit(&n.to_string()), b("^", x, lit(&(n - 1).to_string()))), dx)
                }
                n => panic!("harness: no reference rule for {n}"),
            }
        }
    }
}
fn subst(t: &Tree, name: &str, with: &Tree) -> Tree {
    match t {
        Tree::Var(v) if v == name => with.clone(),
        Tree::Un(k, a) => Tree::un(*k, subst(a, name, with)),
        Tree::Bin(k, a, b) => Tree::bin(*k, subst(a, name, with), subst(b, name, with)),
        x => x.clone(),
    }
}
fn points(n: usize) -> Vec<Vec<Fe>> {
    const EXTRA: [f64; 6] = [0.77, 1.31, 0.45, 2.05, 1.13, 0.58];
    crate::c05::POINTS.iter().map(|(x, y)| (0..n).map(|k| Fe::exact(if k == 0 { *x } else if k == 1 { *y } else { EXTRA[(k - 2) % 6] + 0.01 * (k as f64) })).collect()).collect()
}
/// variables occurring in the library's own printed form of an expression
fn occurring(e: &Ex<Fe>, t: &Table) -> Option<Vec<String>> {
    // (only listed variables count: a printed `inf` or `NaN` is a number, not a name)
    let listed = e.var_names();
    match spec::read(&e.text(), t, LitKind::Number) {
        SpecResult::Ok(tr) => Some(tr.vars().into_iter().filter(|v| listed.contains(v)).collect()),
        _ => None,
    }
}
fn listing_check(e: &Ex<Fe>, t: &Table) -> Result<(), String> {
    use std::collections::BTreeSet;
    let text = e.text();
    // (a printed `inf` / `NaN` reads as a name; such texts are not judged)
    if text.contains("inf") || text.contains("NaN") {
        return Ok(());
    }
    let SpecResult::Ok(tree) = spec::read(&text, t, LitKind::Number) else { return Ok(()) };
    let (mut mb, mut mu, mut yb, mut yu): (BTreeSet<String>, BTreeSet<String>, BTreeSet<String>, BTreeSet<String>) = Default::default();
    crate::c03::must_may(&tree, t, &mut mb, &mut mu, &mut yb, &mut yu);
    let mall: BTreeSet<String> = mb.union(&mu).cloned().collect();
    let yall: BTreeSet<String> = yb.union(&yu).cloned().collect();
    let (b, u, o) = e.reprs();
    crate::c03::listing_ok("binary_reprs", &b, &mb, &yb).map_err(|m| format!("{m} (printed form {text:?})"))?;
    crate::c03::listing_ok("unary_reprs", &u, &mu, &yu).map_err(|m| format!("{m} (printed form {text:?})"))?;
    crate::c03::listing_ok("operator_reprs", &o, &mall, &yall).map_err(|m| format!("{m} (printed form {text:?})"))?;
    Ok(())
}
fn union(a: &[String], b: &[String]) -> Vec<String> {
    let mut v: Vec<String> = a.iter().chain(b.iter()).cloned().collect();
    v.sort();
    v.dedup();
    v
}

/// reference state
#[derive(Clone)]
struct RefSt {
    tree: Tree,
    declared: Vec<String>,
}

impl Derive {
    fn base_ref(&self, i: usize) -> RefSt {
        let (_, tree, d) = &self.bases[i];
        let declared = tree.vars();
        match d {
            Some(k) => RefSt { tree: diff_tree(tree, &declared[*k], &self.table), declared },
            None => RefSt { tree: tree.clone(), declared },
        }
    }
    fn base_lib(&self, i: usize, form: u8) -> Result<Ex<Fe>, String> {
        let (text, _, d) = &self.bases[i];
        let e = Ex::<Fe>::parse_form(text, form).map_err(|e| format!("base rejected: {}", e.msg()))?;
        match d {
            Some(k) => e.partial(*k).map_err(|e| format!("derivative of the base failed: {}", e.msg())),
            None => Ok(e),
        }
    }
    fn pool_ref(&self, j: usize) -> RefSt {
        let (_, tree, d) = &self.pool[j];
        let declared = tree.vars();
        match d {
            Some(i) => RefSt { tree: diff_tree(tree, &declared[*i], &self.table), declared },
            None => RefSt { tree: tree.clone(), declared },
        }
    }
    fn pool_lib(&self, j: usize, deep: bool) -> Result<Ex<Fe>, String> {
        let (text, _, d) = &self.pool[j];
        let e = Ex::<Fe>::parse(text, deep).map_err(|e| format!("pool text rejected: {}", e.msg()))?;
        match d {
            Some(i) => e.partial(*i).map_err(|e| format!("pool derivative failed: {}", e.msg())),
            None => Ok(e),
        }
    }
    /// reference side of one step; for substitutions the variable list is only bounded:
    /// returns (state with the *largest* admissible list, smallest admissible list)
    fn ref_step(&self, st: &RefSt, a: &DAct, occ: Option<&[String]>) -> (RefSt, Vec<String>) {
        let t = &self.table;
        let exact = |s: RefSt| {
            let d = s.declared.clone();
            (s, d)
        };
        match a {
            DAct::Init(..) => unreachable!(),
            DAct::Partial(i) => exact(RefSt { tree: diff_tree(&st.tree, &st.declared[*i], t), declared: st.declared.clone() }),
            DAct::Nth(i, n) => {
                let mut tr = st.tree.clone();
                for _ in 0..*n {
                    tr = diff_tree(&tr, &st.declared[*i], t);
                }
                exact(RefSt { tree: tr, declared: st.declared.clone() })
            }
            DAct::Convert => exact(st.clone()),
            DAct::Un(k) => exact(RefSt { tree: Tree::un(op(t, self.uns[*k], true), st.tree.clone()), declared: st.declared.clone() }),
            DAct::NegOp => exact(RefSt { tree: Tree::un(op(t, "-", true), st.tree.clone()), declared: st.declared.clone() }),
            DAct::Helper(k) => exact(RefSt { tree: Tree::un(op(t, HELPERS[*k], true), st.tree.clone()), declared: st.declared.clone() }),
            DAct::Bin(k, j, left) => {
                let o = self.pool_ref(*j);
                let k = op(t, self.bins[*k], false);
                let tree = if *left { Tree::bin(k, o.tree.clone(), st.tree.clone()) } else { Tree::bin(k, st.tree.clone(), o.tree.clone()) };
                exact(RefSt { tree, declared: union(&st.declared, &o.declared) })
            }
            DAct::Subs(k, j) => {
                let var = &st.declared[*k];
                let o = self.pool_ref(*j);
                // which variables still occur is taken from the library's own printed form (the
                // reference tree is not simplified); without it there is no lower bound
                let tree = subst(&st.tree, var, &o.tree);
                let rest: Vec<String> = st.declared.iter().filter(|v| *v != var).cloned().collect();
                let upper = union(&rest, &o.declared);
                let lower = match occ {
                    Some(occ) if occ.contains(var) => union(&occ.iter().filter(|v| *v != var).cloned().collect::<Vec<_>>(), &o.declared),
                    Some(occ) => occ.to_vec(),
                    None => vec![],
                };
                // (if the variable does not occur, the replacement's names may or may not appear)
                let upper = if occ.map(|o| o.contains(var)).unwrap_or(true) { upper } else { union(&st.declared, &o.declared) };
                (RefSt { tree, declared: upper }, lower)
            }
            DAct::SubsNone => (st.clone(), occ.map(|o| o.to_vec()).unwrap_or_default()),
            DAct::Into(c) => {
                let (_, ct) = &self.carriers[*c];
                let others: Vec<String> = ct.vars().into_iter().filter(|v| v != "u").collect();
                exact(RefSt { tree: subst(ct, "u", &st.tree), declared: union(&others, &st.declared) })
            }
        }
    }
    fn lib_step(&self, cur: &Ex<Fe>, declared: &[String], a: &DAct) -> Result<Ex<Fe>, String> {
        let m = |e: exmex::ExError| e.msg().to_string();
        match a {
            DAct::Init(..) => unreachable!(),
            DAct::Partial(i) => cur.partial(*i).map_err(m),
            DAct::Nth(i, n) => cur.partial_nth(*i, *n, false).map_err(m),
            DAct::Convert => cur.convert().map_err(m),
            DAct::Un(k) => cur.un(self.uns[*k]).map_err(m),
            DAct::NegOp => cur.neg_overloaded().expect("enabled for deep expressions only").map_err(m),
            DAct::Helper(k) => cur.helper(HELPERS[*k]).expect("enabled for deep expressions only").map_err(m),
            DAct::Bin(k, j, left) => {
                let o = self.pool_lib(*j, cur.is_deep())?;
                if *left {
                    o.bin(cur, self.bins[*k]).map_err(m)
                } else {
                    cur.bin(&o, self.bins[*k]).map_err(m)
                }
            }
            DAct::Subs(k, j) => {
                let o = self.pool_lib(*j, cur.is_deep())?;
                cur.subs_one(Some(declared[*k].as_str()), &o).map_err(m)
            }
            DAct::SubsNone => cur.subs_one(None, cur).map_err(m),
            DAct::Into(c) => {
                let carrier = Ex::<Fe>::parse(self.carriers[*c].0, cur.is_deep()).map_err(m)?;
                carrier.subs_one(Some("u"), cur).map_err(m)
            }
        }
    }
    fn act_text(&self, a: &DAct, declared: &[String]) -> String {
        let name = |i: &usize| declared.get(*i).cloned().unwrap_or_else(|| format!("#{i}"));
        let pool = |j: &usize| {
            let (t, _, d) = &self.pool[*j];
            match d {
                Some(i) => format!("parse({t:?}).partial({i})"),
                None => format!("parse({t:?})"),
            }
        };
        match a {
            DAct::Init(i, form) => format!("{}({:?}){}", ["FlatEx::parse", "DeepEx::parse", "FlatEx::parse_wo_compile"][*form as usize], self.bases[*i].0, self.bases[*i].2.map(|k| format!(".partial({k})")).unwrap_or_default()),
            DAct::Partial(i) => format!("partial({i}) [d/d{}]", name(i)),
            DAct::Nth(i, n) => format!("partial_nth({i}, {n}) [d/d{}]", name(i)),
            DAct::Convert => "convert to the other form".into(),
            DAct::Un(k) => format!("operate_unary({:?})", self.uns[*k]),
            DAct::NegOp => "-self (overloaded)".into(),
            DAct::Helper(k) => format!("self.{}()", HELPERS[*k]),
            DAct::Bin(k, j, left) => {
                if *left {
                    format!("{}.operate_binary(self, {:?})", pool(j), self.bins[*k])
                } else {
                    format!("operate_binary({}, {:?})", pool(j), self.bins[*k])
                }
            }
            DAct::Subs(k, j) => format!("subs{{{} := {}}}", name(k), pool(j)),
            DAct::SubsNone => "subs{}".into(),
            DAct::Into(c) => format!("parse({:?}).subs{{u := self}}", self.carriers[*c].0),
        }
    }
    /// reference replay (largest admissible variable lists)
    fn ref_replay(&self, hist: &[DAct]) -> RefSt {
        let DAct::Init(i, _) = &hist[0] else { unreachable!() };
        let mut st = self.base_ref(*i);
        for a in &hist[1..] {
            st = self.ref_step(&st, a, None).0;
        }
        st
    }
}

impl Hist for Derive {
    type Act = DAct;
    fn roots(&self) -> Vec<Vec<DAct>> {
        // (the uncompiled form only differs where a literal meets an operator before any variable does)
        (0..self.bases.len())
            .flat_map(|i| {
                let mut v = vec![vec![DAct::Init(i, 0)], vec![DAct::Init(i, 1)]];
                if self.bases[i].0.contains(|c: char| c.is_ascii_digit()) {
                    v.push(vec![DAct::Init(i, 2)]);
                }
                v
            })
            .collect()
    }
    fn enabled(&self, hist: &[DAct], out: &mut Vec<DAct>) {
        // (variable lists can shrink at a substitution; `run` marks such states terminal if the
        // library's list differs from the largest admissible one, so indices stay meaningful)
        let st = self.ref_replay(hist);
        let n = st.declared.len();
        // keep trees small: no further growth steps once the reference tree is big
        let big = st.tree.n_nodes() > 60;
        for i in 0..n {
            out.push(DAct::Partial(i));
            out.push(DAct::Nth(i, 0));
            if !big {
                out.push(DAct::Nth(i, 2));
            }
        }
        out.push(DAct::Convert);
        out.push(DAct::SubsNone);
        if big {
            if hist.len() + 1 == self.max_len && !matches!(self.focus, Focus::Names | Focus::Crash) {
                out.retain(|a| self.focus.judges(a));
            }
            return;
        }
        for k in 0..self.uns.len() {
            out.push(DAct::Un(k));
        }
        let DAct::Init(_, form0) = &hist[0] else { unreachable!() };
        let deep_now = (*form0 == 1) ^ (hist.iter().filter(|a| matches!(a, DAct::Convert)).count() % 2 == 1);
        if deep_now {
            out.push(DAct::NegOp);
            for k in 0..HELPERS.len() {
                out.push(DAct::Helper(k));
            }
        }
        for k in 0..self.bins.len() {
            for j in 0..self.pool.len() {
                out.push(DAct::Bin(k, j, false));
                if k % 2 == 1 {
                    out.push(DAct::Bin(k, j, true));
                }
            }
        }
        for k in 0..n {
            for j in 0..self.pool.len() {
                out.push(DAct::Subs(k, j));
            }
        }
        for c in 0..self.carriers.len() {
            out.push(DAct::Into(c));
        }
        // the last step of a history of maximal length is only worth taking if it is judged
        if hist.len() + 1 == self.max_len && !matches!(self.focus, Focus::Names | Focus::Crash) {
            out.retain(|a| self.focus.judges(a));
        }
    }
    fn max_len(&self) -> usize {
        self.max_len
    }
    fn describe(&self, hist: &[DAct]) -> Value {
        let mut st: Option<RefSt> = None;
        let mut steps = Vec::new();
        for a in hist {
            match (&st, a) {
                (None, DAct::Init(i, _)) => {
                    steps.push(self.act_text(a, &[]));
                    st = Some(self.base_ref(*i));
                }
                (Some(s), a) => {
                    steps.push(self.act_text(a, &s.declared));
                    st = Some(self.ref_step(s, a, None).0);
                }
                _ => unreachable!(),
            }
        }
        json!(steps)
    }
    fn run(&self, hist: &[DAct]) -> Outcome {
        let mut out = Outcome { key: String::new(), bad: vec![], terminal: false, steps: 0 };
        let DAct::Init(i0, form0) = &hist[0] else { unreachable!() };
        let form = ["flat", "deep", "flat-uncompiled"][*form0 as usize];
        let mut cur = match self.base_lib(*i0, *form0) {
            Ok(e) => e,
            Err(m) => {
                out.bad.push((format!("{form}:parse"), m));
                out.terminal = true;
                return out;
            }
        };
        let mut st = self.base_ref(*i0);
        let last = hist.len() - 1;
        for (pos, a) in hist.iter().enumerate().skip(1) {
            out.steps += 1;
            let judged = pos == last && self.focus.judges(a);
            let kind = format!("{a:?}").split('(').next().unwrap_or("").to_string();
            let next = self.lib_step(&cur, &st.declared, a);
            let occ = occurring(&cur, &self.table);
            let (upper, lower) = self.ref_step(&st, a, occ.as_deref());
            let next = match next {
                Ok(e) => e,
                Err(m) => {
                    if judged {
                        out.bad.push((format!("{form}:{kind}:failed"), format!("{}: the step failed: {m}", self.describe(hist))));
                    }
                    out.terminal = true;
                    out.key = format!("failed|{}", self.describe(hist));
                    return out;
                }
            };
            // variable list
            let names = next.var_names();
            let sorted = names.windows(2).all(|w| w[0] < w[1]);
            let within = lower.iter().all(|v| names.contains(v)) && names.iter().all(|v| upper.declared.contains(v));
            if !(sorted && within) {
                if judged {
                    let want = if lower == upper.declared { format!("{lower:?}") } else { format!("a sorted list between {lower:?} and {:?}", upper.declared) };
                    out.bad.push((format!("{form}:{kind}:variable-list"), format!("{}: variables {names:?} instead of {want}", self.describe(hist))));
                }
                out.terminal = true;
                out.key = format!("names|{}", self.describe(hist));
                return out;
            }
            // operator listings of every expression a history of the conversion check ends in:
            // sorted, duplicate-free, nothing that is absent from the expression's own printed
            // text, every operator the printed text applies to a variable-dependent operand
            if self.focus == Focus::Convert && pos == last {
                if let Err(m) = listing_check(&next, &self.table) {
                    out.bad.push((format!("{form}:{kind}:operator-listing"), format!("{}: {m}", self.describe(hist))));
                    out.terminal = true;
                    out.key = format!("listing|{}", self.describe(hist));
                    return out;
                }
            }
            let exact_names = names == upper.declared;
            let upper_declared = upper.declared.clone();
            st = RefSt { tree: upper.tree, declared: names.clone() };
            cur = next;
            // value (not for the pure name check)
            if self.focus != Focus::Names || pos == last {
                let mut concl = 0;
                let mut wrong = None;
                for p in points(names.len()) {
                    // variables a substitution dropped (they did not occur) get a fixed value: if
                    // the function depended on one of them, the values would differ
                    let ref_vals: Vec<Fe> = upper_declared.iter().map(|v| names.iter().position(|n| n == v).map(|k| p[k].clone()).unwrap_or_else(|| Fe::exact(0.6180339))).collect();
                    let want = eval_num::<Fe>(&st.tree, &self.table, &upper_declared, &ref_vals);
                    match cur.eval(&p) {
                        Ok(got) => match <Fe as Cmp>::agree(&got, &want) {
                            Some(true) => concl += 1,
                            Some(false) => {
                                wrong = Some(format!("at {:?}: {:?} (+-{:.1e}) instead of {:?} (+-{:.1e}); printed form {:?}", p.iter().map(|x| x.v).collect::<Vec<_>>(), got.v, got.e, want.v, want.e, cur.text()));
                                break;
                            }
                            None => {}
                        },
                        Err(e) => {
                            wrong = Some(format!("evaluation with {} values failed: {}", names.len(), e.msg()));
                            break;
                        }
                    }
                }
                let _ = concl;
                if let Some(w) = wrong {
                    if judged && self.focus != Focus::Names {
                        out.bad.push((format!("{form}:{kind}:value"), format!("{}: {w}", self.describe(hist))));
                    } else if judged {
                        // the name check still needs "the n-th value is bound to the n-th name"
                        out.bad.push((format!("{form}:{kind}:binding-or-value"), format!("{}: {w}", self.describe(hist))));
                    }
                    out.terminal = true;
                    out.key = format!("value|{}", self.describe(hist));
                    return out;
                }
            }
            if !exact_names {
                // a substitution dropped variables that did not occur: unspecified, but the
                // indices of later steps would no longer match the reference enumeration
                out.terminal = true;
            }
        }
        out.key = format!("{}|{:?}|{}", cur.dump(), st.declared, st.tree.show(&self.table));
        out
    }
}

fn read_texts(texts: &[&'static str], t: &Table, prop: &str) -> Vec<(&'static str, Tree)> {
    texts
        .iter()
        .map(|s| match spec::read(s, t, LitKind::Number) {
            SpecResult::Ok(tr) => (*s, tr),
            o => {
                println!("MACHINERY-FAILURE property={prop} derived-expression text {s:?}: {o:?}");
                std::process::exit(2)
            }
        })
        .collect()
}

/// explore the derived-expression histories with the steps of `focus` judged
pub fn run_derived(rep: &mut Report, prop: &str, focus: Focus, thorough: bool) {
    let t = num_table();
    let base_src: Vec<(&'static str, Option<usize>)> = if thorough {
        vec![("x*y+z", None), ("x+sin(y)", None), ("3*x+y", None), ("x*x*y", None), ("(y+1)*x", None), ("sin(x*y)/z", None), ("x^2-y", None), ("z", None), ("cos(x)-cos(y)*x", None), ("x*(-(y*z))", None), ("exp(-x)", None), ("3*x+y", Some(0)), ("x", Some(0)), ("x*y+z", Some(0)), ("x+sin(y)", Some(1))]
    } else {
        vec![("x*y+z", None), ("x+sin(y)", None), ("3*x+y", None), ("(y+1)*x", None), ("x^2-y", None), ("x*(-(y*z))", None), ("exp(-x)", None), ("3*x+y", Some(0)), ("x+sin(y)", Some(1))]
    };
    let bases: Vec<(&'static str, Tree, Option<usize>)> = base_src.iter().map(|(s, d)| (*s, read_texts(&[*s], &t, prop).remove(0).1, *d)).collect();
    let pool_src: Vec<(&'static str, Option<usize>)> = vec![("w", None), ("x", None), ("2", None), ("x+1", None), ("x*y+z", Some(0)), ("3*x+y", Some(0)), ("x+sin(y)", Some(1))];
    let pool: Vec<(&'static str, Tree, Option<usize>)> = pool_src.iter().map(|(s, d)| (*s, read_texts(&[*s], &t, prop).remove(0).1, *d)).collect();
    let carriers = read_texts(&["u*2+v", "(u+1)*x", "sin(u)"], &t, prop);
    let m = Derive { table: t, bases: Arc::new(bases), pool: Arc::new(pool), carriers: Arc::new(carriers), uns: vec!["-", "sin"], bins: vec!["+", "-", "*", "/"], max_len: if thorough { 4 } else { 3 }, focus };
    explore(m, rep, "derived", &format!("derived-expression histories (differentiate / convert / apply / substitute; judged steps: {focus:?})"));
}
