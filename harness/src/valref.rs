//! Independent reference interpreter of the documented rules of the value type (C16/C17/C18).
//! Three-valued: what the documentation promises exactly, what must be an error value, and what
//! it leaves open (then only totality is required).
use exmex::Val;

#[derive(Clone, Debug, PartialEq)]
pub enum RV {
    Int(i32),
    Float(f64),
    Bool(bool),
    Array(Vec<f64>),
    None,
    Error,
}

#[derive(Clone, Debug, PartialEq)]
pub enum Spec {
    Exactly(RV),
    MustBeError,
    Unspecified,
}
use Spec::*;

pub fn from_val(v: &Val<i32, f64>) -> RV {
    match v {
        Val::Int(i) => RV::Int(*i),
        Val::Float(f) => RV::Float(*f),
        Val::Bool(b) => RV::Bool(*b),
        Val::Array(a) => RV::Array(a.iter().copied().collect()),
        Val::None => RV::None,
        Val::Error(_) => RV::Error,
    }
}
pub fn to_val(v: &RV) -> Val<i32, f64> {
    match v {
        RV::Int(i) => Val::Int(*i),
        RV::Float(f) => Val::Float(*f),
        RV::Bool(b) => Val::Bool(*b),
        RV::Array(a) => Val::Array(a.iter().copied().collect()),
        RV::None => Val::None,
        RV::Error => Val::Error(exmex::ExError::new("catalogue error value")),
    }
}

pub fn same_f(a: f64, b: f64) -> bool {
    a.to_bits() == b.to_bits() || (a.is_nan() && b.is_nan())
}
/// does the library's value `got` satisfy the reference value `want`?
pub fn matches(want: &RV, got: &RV) -> bool {
    match (want, got) {
        (RV::Float(a), RV::Float(b)) => same_f(*a, *b),
        (RV::Array(a), RV::Array(b)) => a.len() == b.len() && a.iter().zip(b).all(|(x, y)| same_f(*x, *y)),
        (a, b) => a == b,
    }
}

/// like `matches`, but floats may differ by rounding (regrouping of really-AC operators)
pub fn matches_approx(want: &RV, got: &RV) -> bool {
    let close = |a: f64, b: f64| same_f(a, b) || (a - b).abs() <= 1e-12 * a.abs().max(b.abs()).max(1e-300);
    match (want, got) {
        (RV::Float(a), RV::Float(b)) => close(*a, *b),
        (RV::Array(a), RV::Array(b)) => a.len() == b.len() && a.iter().zip(b).all(|(x, y)| close(*x, *y)),
        (a, b) => a == b,
    }
}

fn is_err(v: &RV) -> bool {
    matches!(v, RV::Error)
}

fn int_res(v: i128) -> Spec {
    if v >= i32::MIN as i128 && v <= i32::MAX as i128 {
        Exactly(RV::Int(v as i32))
    } else {
        MustBeError
    }
}

fn arith(name: &str, a: &RV, b: &RV) -> Spec {
    if is_err(a) || is_err(b) {
        return MustBeError;
    }
    let fop = |x: f64, y: f64| match name {
        "+" => x + y,
        "-" => x - y,
        "*" => x * y,
        "/" => x / y,
        "min" => x.min(y),
        _ => x.max(y),
    };
    match (a, b) {
        (RV::Int(x), RV::Int(y)) => {
            let (x, y) = (*x as i128, *y as i128);
            match name {
                "+" => int_res(x + y),
                "-" => int_res(x - y),
                "*" => int_res(x * y),
                "/" => {
                    if y == 0 {
                        MustBeError
                    } else {
                        int_res(x / y)
                    }
                }
                "min" => int_res(x.min(y)),
                _ => int_res(x.max(y)),
            }
        }
        (RV::Float(x), RV::Float(y)) => {
            // min/max of NaN and of differently signed zeros is not pinned down by IEEE / std
            if (name == "min" || name == "max") && (x.is_nan() || y.is_nan() || (*x == 0.0 && *y == 0.0)) {
                Unspecified
            } else {
                Exactly(RV::Float(fop(*x, *y)))
            }
        }
        (RV::Int(x), RV::Float(y)) => {
            if (name == "min" || name == "max") && (y.is_nan() || (*x == 0 && *y == 0.0)) {
                Unspecified
            } else {
                Exactly(RV::Float(fop(*x as f64, *y)))
            }
        }
        (RV::Float(x), RV::Int(y)) => {
            if name == "/" && *y == 0 {
                // "division by zero is an error" vs "an integer meeting a float is promoted": open
                return Unspecified;
            }
            if (name == "min" || name == "max") && (x.is_nan() || (*x == 0.0 && *y == 0)) {
                Unspecified
            } else {
                Exactly(RV::Float(fop(*x, *y as f64)))
            }
        }
        (RV::Array(x), RV::Array(y)) => {
            if x.len() == y.len() && name != "min" && name != "max" {
                Exactly(RV::Array(x.iter().zip(y).map(|(p, q)| fop(*p, *q)).collect()))
            } else {
                Unspecified
            }
        }
        (RV::Array(x), RV::Float(_) | RV::Int(_)) | (RV::Float(_) | RV::Int(_), RV::Array(x)) => {
            // broadcasting is only shown for commutative operators in the documentation
            let s = match (a, b) {
                (RV::Float(s), _) | (_, RV::Float(s)) => *s,
                (RV::Int(s), _) | (_, RV::Int(s)) => *s as f64,
                _ => unreachable!(),
            };
            if name == "+" || name == "*" {
                Exactly(RV::Array(x.iter().map(|p| fop(*p, s)).collect()))
            } else {
                Unspecified
            }
        }
        // bool / none operands: wrong kinds
        _ => MustBeError,
    }
}

fn num(v: &RV) -> Option<f64> {
    match v {
        RV::Int(i) => Some(*i as f64),
        RV::Float(f) => Some(*f),
        _ => None,
    }
}

fn compare(name: &str, a: &RV, b: &RV) -> Spec {
    if let (Some(x), Some(y)) = (num(a), num(b)) {
        // exact for i32 <-> f64
        let r = match (a, b) {
            (RV::Int(p), RV::Int(q)) => match name {
                "==" => p == q,
                "!=" => p != q,
                "<" => p < q,
                ">" => p > q,
                "<=" => p <= q,
                _ => p >= q,
            },
            _ => match name {
                "==" => x == y,
                "!=" => x != y,
                "<" => x < y,
                ">" => x > y,
                "<=" => x <= y,
                _ => x >= y,
            },
        };
        return Exactly(RV::Bool(r));
    }
    match (a, b) {
        (RV::Bool(p), RV::Bool(q)) => match name {
            "==" => Exactly(RV::Bool(p == q)),
            "!=" => Exactly(RV::Bool(p != q)),
            _ => Unspecified,
        },
        (RV::Array(_), RV::Array(_)) => Unspecified,
        // mismatched kinds, none, errors: equality and ordering are false; `!=` is left open
        _ => {
            if name == "!=" {
                Unspecified
            } else {
                Exactly(RV::Bool(false))
            }
        }
    }
}

pub fn bin(name: &str, a: &RV, b: &RV) -> Spec {
    match name {
        "+" | "-" | "*" | "min" | "max" => arith(name, a, b),
        "/" => arith(name, a, b),
        "^" => {
            if is_err(a) || is_err(b) {
                return MustBeError;
            }
            match (a, b) {
                (RV::Int(x), RV::Int(y)) => {
                    if *y < 0 {
                        MustBeError
                    } else {
                        let mut r: i128 = 1;
                        let mut over = false;
                        for _ in 0..(*y).min(200) {
                            r *= *x as i128;
                            if r.abs() > (1i128 << 40) {
                                over = true;
                                break;
                            }
                        }
                        if *y > 200 && !(*x == 0 || *x == 1 || *x == -1) {
                            over = true;
                        }
                        if *y > 200 && (*x == 0 || *x == 1 || *x == -1) {
                            r = match *x {
                                0 => 0,
                                1 => 1,
                                _ => {
                                    if *y % 2 == 0 {
                                        1
                                    } else {
                                        -1
                                    }
                                }
                            };
                        }
                        if over {
                            MustBeError
                        } else {
                            int_res(r)
                        }
                    }
                }
                (RV::Float(x), RV::Float(y)) => Exactly(RV::Float(x.powf(*y))),
                (RV::Float(x), RV::Int(y)) => Exactly(RV::Float(x.powi(*y))),
                (RV::Int(_), RV::Float(_)) => Unspecified,
                (RV::Array(_), _) | (_, RV::Array(_)) => Unspecified,
                _ => MustBeError,
            }
        }
        "%" => {
            if is_err(a) || is_err(b) {
                return MustBeError;
            }
            match (a, b) {
                (RV::Int(x), RV::Int(y)) => {
                    if *y == 0 || (*x == i32::MIN && *y == -1) {
                        MustBeError
                    } else {
                        Exactly(RV::Int(x % y))
                    }
                }
                _ => MustBeError,
            }
        }
        "|" | "&" | "XOR" | "<<" | ">>" => {
            if is_err(a) || is_err(b) {
                return MustBeError;
            }
            match (a, b) {
                (RV::Int(x), RV::Int(y)) => match name {
                    "|" => Exactly(RV::Int(x | y)),
                    "&" => Exactly(RV::Int(x & y)),
                    "XOR" => Exactly(RV::Int(x ^ y)),
                    _ => {
                        if *y < 0 || *y >= 32 {
                            MustBeError
                        } else if name == "<<" {
                            Exactly(RV::Int(x.wrapping_shl(*y as u32)))
                        } else {
                            Exactly(RV::Int(x >> y))
                        }
                    }
                },
                _ => MustBeError,
            }
        }
        "&&" | "||" => match (a, b) {
            (RV::Bool(p), RV::Bool(q)) => Exactly(RV::Bool(if name == "&&" { *p && *q } else { *p || *q })),
            _ => Unspecified,
        },
        "==" | "!=" | "<" | ">" | "<=" | ">=" => compare(name, a, b),
        "if" => match b {
            RV::Bool(true) => Exactly(a.clone()),
            RV::Bool(false) => Exactly(RV::None),
            _ => Unspecified,
        },
        "else" => match a {
            RV::None => Exactly(b.clone()),
            x => Exactly(x.clone()),
        },
        "atan2" => {
            if is_err(a) || is_err(b) {
                return MustBeError;
            }
            match (a, b) {
                (RV::Float(y), RV::Float(x)) => Exactly(RV::Float(y.atan2(*x))),
                _ => Unspecified,
            }
        }
        "dot" => {
            if is_err(a) || is_err(b) {
                return MustBeError;
            }
            match (a, b) {
                (RV::Array(x), RV::Array(y)) => {
                    if x.len() != y.len() {
                        MustBeError
                    } else {
                        Exactly(RV::Float(x.iter().zip(y).map(|(p, q)| p * q).fold(0.0, |s, t| s + t)))
                    }
                }
                _ => MustBeError,
            }
        }
        "cross" => {
            if is_err(a) || is_err(b) {
                return MustBeError;
            }
            match (a, b) {
                (RV::Array(x), RV::Array(y)) => {
                    if x.len() != 3 || y.len() != 3 {
                        MustBeError
                    } else {
                        Exactly(RV::Array(vec![x[1] * y[2] - x[2] * y[1], x[2] * y[0] - x[0] * y[2], x[0] * y[1] - x[1] * y[0]]))
                    }
                }
                _ => MustBeError,
            }
        }
        "." => {
            if is_err(a) || is_err(b) {
                return MustBeError;
            }
            match (a, b) {
                (RV::Array(x), RV::Int(i)) => {
                    if *i < 0 || *i as usize >= x.len() {
                        MustBeError
                    } else {
                        Exactly(RV::Float(x[*i as usize]))
                    }
                }
                _ => MustBeError,
            }
        }
        _ => Unspecified,
    }
}

pub fn un(name: &str, a: &RV) -> Spec {
    if name == "+" {
        return Exactly(a.clone());
    }
    if is_err(a) {
        return MustBeError;
    }
    let ffun: Option<fn(f64) -> f64> = match name {
        "sin" => Some(f64::sin),
        "cos" => Some(f64::cos),
        "tan" => Some(f64::tan),
        "asin" => Some(f64::asin),
        "acos" => Some(f64::acos),
        "atan" => Some(f64::atan),
        "sinh" => Some(f64::sinh),
        "cosh" => Some(f64::cosh),
        "tanh" => Some(f64::tanh),
        "asinh" => Some(f64::asinh),
        "acosh" => Some(f64::acosh),
        "atanh" => Some(f64::atanh),
        "floor" => Some(f64::floor),
        "ceil" => Some(f64::ceil),
        "trunc" => Some(f64::trunc),
        "fract" => Some(f64::fract),
        "round" => Some(f64::round),
        "exp" => Some(f64::exp),
        "sqrt" => Some(f64::sqrt),
        "cbrt" => Some(f64::cbrt),
        "ln" | "log" => Some(f64::ln),
        "log2" => Some(f64::log2),
        "log10" => Some(f64::log10),
        _ => None,
    };
    if let Some(f) = ffun {
        return match a {
            RV::Float(x) => Exactly(RV::Float(f(*x))),
            _ => Unspecified,
        };
    }
    match name {
        "-" => match a {
            RV::Int(x) => match x.checked_neg() {
                Some(v) => Exactly(RV::Int(v)),
                None => MustBeError,
            },
            RV::Float(x) => Exactly(RV::Float(-x)),
            RV::Array(x) => Exactly(RV::Array(x.iter().map(|p| -p).collect())),
            _ => MustBeError,
        },
        "abs" => match a {
            RV::Int(x) => match x.checked_abs() {
                Some(v) => Exactly(RV::Int(v)),
                None => MustBeError,
            },
            RV::Float(x) => Exactly(RV::Float(x.abs())),
            _ => MustBeError,
        },
        "signum" => match a {
            RV::Int(x) => Exactly(RV::Int(x.signum())),
            RV::Float(x) => Exactly(RV::Float(x.signum())),
            _ => MustBeError,
        },
        "fact" => match a {
            RV::Int(x) => {
                if *x < 0 {
                    MustBeError
                } else {
                    let mut r: i128 = 1;
                    for k in 1..=(*x as i128).min(20) {
                        r *= k;
                    }
                    if *x > 12 {
                        MustBeError
                    } else {
                        int_res(r)
                    }
                }
            }
            RV::Float(_) => MustBeError,
            _ => Unspecified,
        },
        "to_int" => match a {
            RV::Int(x) => Exactly(RV::Int(*x)),
            RV::Float(x) => {
                if x.is_nan() || x.is_infinite() {
                    MustBeError
                } else {
                    let t = x.trunc();
                    if t >= i32::MIN as f64 && t <= i32::MAX as f64 {
                        Exactly(RV::Int(t as i32))
                    } else {
                        MustBeError
                    }
                }
            }
            RV::Bool(b) => Exactly(RV::Int(*b as i32)),
            _ => MustBeError,
        },
        "to_float" => match a {
            RV::Int(x) => Exactly(RV::Float(*x as f64)),
            RV::Float(x) => Exactly(RV::Float(*x)),
            RV::Bool(b) => Exactly(RV::Float(if *b { 1.0 } else { 0.0 })),
            _ => MustBeError,
        },
        "swap_bytes" => match a {
            RV::Int(x) => Exactly(RV::Int(x.swap_bytes())),
            _ => Unspecified,
        },
        "to_le" => match a {
            RV::Int(x) => Exactly(RV::Int(x.to_le())),
            _ => Unspecified,
        },
        "to_be" => match a {
            RV::Int(x) => Exactly(RV::Int(x.to_be())),
            _ => Unspecified,
        },
        "length" => match a {
            RV::Array(x) => Exactly(RV::Float(x.iter().map(|p| p * p).fold(0.0, |s, t| s + t).sqrt())),
            _ => MustBeError,
        },
        _ => Unspecified,
    }
}

pub fn constant(name: &str) -> Option<RV> {
    Some(RV::Float(match name {
        "PI" | "π" => std::f64::consts::PI,
        "E" => std::f64::consts::E,
        "TAU" | "τ" => std::f64::consts::TAU,
        _ => return None,
    }))
}

pub fn parse_lit(s: &str) -> Option<RV> {
    if s == "true" {
        return Some(RV::Bool(true));
    }
    if s == "false" {
        return Some(RV::Bool(false));
    }
    if s.starts_with('[') {
        let inner = s.trim_start_matches('[').trim_end_matches(']');
        return inner.split(',').map(|x| x.trim().parse::<f64>().ok()).collect::<Option<Vec<f64>>>().map(RV::Array);
    }
    if s.contains('.') {
        return s.parse::<f64>().ok().map(RV::Float);
    }
    s.parse::<i32>().ok().map(RV::Int)
}

/// three-valued evaluation of a reference tree
pub fn eval_tree(tree: &crate::spec::Tree, t: &crate::sym::Table, vars: &[String], vals: &[RV]) -> Spec {
    use crate::spec::Tree;
    match tree {
        Tree::Lit(s) => match parse_lit(s) {
            Some(v) => Exactly(v),
            None => Unspecified,
        },
        Tree::Const(k) => match constant(t.ops[*k as usize].name) {
            Some(v) => Exactly(v),
            None => Unspecified,
        },
        Tree::Var(v) => Exactly(vals[vars.iter().position(|x| x == v).unwrap()].clone()),
        Tree::Un(k, a) => {
            let av = match eval_tree(a, t, vars, vals) {
                Exactly(v) => v,
                MustBeError => RV::Error,
                Unspecified => return Unspecified,
            };
            un(t.ops[*k as usize].name, &av)
        }
        Tree::Bin(k, a, b) => {
            let av = match eval_tree(a, t, vars, vals) {
                Exactly(v) => v,
                MustBeError => RV::Error,
                Unspecified => return Unspecified,
            };
            let bv = match eval_tree(b, t, vars, vals) {
                Exactly(v) => v,
                MustBeError => RV::Error,
                Unspecified => return Unspecified,
            };
            bin(t.ops[*k as usize].name, &av, &bv)
        }
    }
}

pub fn catalogue(thorough: bool) -> Vec<RV> {
    let mut v = Vec::new();
    let mut ints: Vec<i32> = vec![i32::MIN, i32::MIN + 1, -2, -1, 0, 1, 2, 3, 12, 13, 31, 32, 33, i32::MAX - 1, i32::MAX];
    let mut floats: Vec<f64> = vec![
        0.0, -0.0, 1.0, -1.0, 0.5, -0.5, 2.5, -2.5, 3.0, 1e300, -1e300, f64::MIN_POSITIVE, -f64::MIN_POSITIVE, f64::INFINITY, f64::NEG_INFINITY, f64::NAN, 2147483648.0, 2147483647.0, -2147483648.0, -2147483649.0, 1e10,
    ];
    if thorough {
        ints.extend([-33, -32, -31, -13, -3, 4, 5, 7, 8, 15, 16, 17, 30, 46340, 46341, 65535, 65536, 1 << 30, -(1 << 30), 1000000, -1000000, 255, 256]);
        floats.extend([2.0, -2.0, 0.25, 1.5, -1.5, 10.0, 100.5, 1e-10, -1e-10, 1e15, 2147483647.5, -2147483648.5, 4294967296.0, f64::MAX, f64::MIN, std::f64::consts::PI, 31.0, 32.0, 33.0, 0.9999999999999999, 1.0000000000000002]);
    }
    v.extend(ints.into_iter().map(RV::Int));
    v.extend(floats.into_iter().map(RV::Float));
    v.push(RV::Bool(true));
    v.push(RV::Bool(false));
    for a in [vec![], vec![1.0], vec![1.0, 2.0], vec![1.0, 2.0, 3.0], vec![0.0, 0.0, 1.0], vec![f64::NAN, 1.0, 2.0], vec![1.0, 2.0, 3.0, 4.0], vec![1.0, 2.0, 3.0, 4.0, 5.0]] {
        v.push(RV::Array(a));
    }
    if thorough {
        v.push(RV::Array(vec![-1.5, 2.0, 1e300]));
        v.push(RV::Array(vec![f64::INFINITY, 0.0]));
    }
    v.push(RV::None);
    v.push(RV::Error);
    v
}
