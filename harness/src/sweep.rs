//! E4 - crash-contained sweeps: the parent enumerates index ranges and hands them to worker
//! subprocesses; a worker that dies (abort, stack overflow, OOM kill) or exceeds its watchdog is
//! bisected down to the single responsible case, which is confirmed in a fresh process.
use crate::report::*;
use serde_json::{json, Value};
use std::io::{BufRead, BufReader};
use std::process::{Command, Stdio};
use std::sync::atomic::{AtomicUsize, Ordering};
use std::sync::Mutex;
use std::time::{Duration, Instant};

pub trait Family: Sync + Send {
    fn name(&self) -> String;
    fn total(&self) -> u64;
    /// must not panic itself: every call into the library is wrapped in `guard`
    fn run_case(&self, idx: u64, acc: &mut Acc);
    /// human-readable form of a case (for crash reports)
    fn describe(&self, idx: u64) -> String;
    /// what a process death on this case is filed under (names the specific thing that fails)
    fn crash_signature(&self, _idx: u64) -> String {
        self.name()
    }
    /// cases per worker process (None = sized by the driver); 1 = a fresh process per case
    fn chunk_hint(&self) -> Option<u64> {
        None
    }
    /// watchdog for one chunk / for one case in a fresh process (seconds); a case that exceeds
    /// the latter on its own is reported as a hang
    fn watchdogs(&self) -> (u64, u64) {
        (900, 20)
    }
}

pub type FamilyMaker = fn(Tier) -> Vec<Box<dyn Family>>;

/// worker entry: verif worker <prop> <tier> <family> <start> <end>
pub fn worker_main(args: &[String], maker: FamilyMaker) -> i32 {
    let tier = if args[3] == "thorough" { Tier::Thorough } else { Tier::Quick };
    let fam_idx: usize = args[4].parse().unwrap();
    let start: u64 = args[5].parse().unwrap();
    let end: u64 = args[6].parse().unwrap();
    // run the cases on a thread with an explicit 8 MiB stack (the default main-thread stack on
    // Linux): a fixed mapping with a guard page makes the overflow threshold independent of
    // `ulimit -s` and of address-space randomisation
    let h = std::thread::Builder::new().stack_size(8 << 20).spawn(move || worker_body(tier, fam_idx, start, end, maker)).expect("spawn");
    h.join().unwrap_or(3)
}

fn worker_body(tier: Tier, fam_idx: usize, start: u64, end: u64, maker: FamilyMaker) -> i32 {
    crate::common::install_panic_hook();
    let fams = maker(tier);
    let fam = &fams[fam_idx];
    let mut acc = Acc::default();
    use std::io::Write;
    let out = std::io::stdout();
    for idx in start..end {
        fam.run_case(idx, &mut acc);
        if !acc.violations.is_empty() {
            let mut o = out.lock();
            for v in acc.violations.drain(..) {
                let _ = writeln!(o, "V {}", json!({"signature": v.signature, "what": v.what, "case": v.case}));
            }
        }
    }
    let mut o = out.lock();
    for s in &acc.samples {
        let _ = writeln!(o, "S {s}");
    }
    let _ = writeln!(
        o,
        "DONE {}",
        json!({"evaluations": acc.evaluations, "states": acc.states, "transitions": acc.transitions, "nontrivial": acc.nontrivial, "counters": acc.counters})
    );
    0
}

enum ChunkResult {
    Done(Acc),
    /// the process died or timed out without finishing
    Died(String),
}

fn run_chunk(prop: &str, tier: Tier, fam: usize, start: u64, end: u64, timeout: Duration) -> ChunkResult {
    let exe = std::env::current_exe().expect("current exe");
    let mut child = Command::new(exe)
        .args(["worker", prop, tier.name(), &fam.to_string(), &start.to_string(), &end.to_string()])
        .stdin(Stdio::null())
        .stdout(Stdio::piped())
        .stderr(Stdio::null())
        .spawn()
        .expect("spawn worker");
    let stdout = child.stdout.take().unwrap();
    let reader = std::thread::spawn(move || {
        let mut acc = Acc::default();
        let mut done = false;
        for line in BufReader::new(stdout).lines() {
            let Ok(line) = line else { break };
            if let Some(rest) = line.strip_prefix("V ") {
                if let Ok(v) = serde_json::from_str::<Value>(rest) {
                    acc.violate(Violation { signature: v["signature"].as_str().unwrap_or("").to_string(), what: v["what"].as_str().unwrap_or("").to_string(), case: v["case"].clone() });
                }
            } else if let Some(rest) = line.strip_prefix("S ") {
                if let Ok(v) = serde_json::from_str::<Value>(rest) {
                    acc.sample(v);
                }
            } else if let Some(rest) = line.strip_prefix("DONE ") {
                if let Ok(v) = serde_json::from_str::<Value>(rest) {
                    acc.evaluations = v["evaluations"].as_u64().unwrap_or(0);
                    acc.states = v["states"].as_u64().unwrap_or(0);
                    acc.transitions = v["transitions"].as_u64().unwrap_or(0);
                    acc.nontrivial = v["nontrivial"].as_u64().unwrap_or(0);
                    if let Some(c) = v["counters"].as_object() {
                        for (k, n) in c {
                            acc.count(k, n.as_u64().unwrap_or(0));
                        }
                    }
                    done = true;
                }
            }
        }
        (acc, done)
    });
    let t0 = Instant::now();
    let status = loop {
        match child.try_wait() {
            Ok(Some(st)) => break Some(st),
            Ok(None) => {
                if t0.elapsed() > timeout {
                    let _ = child.kill();
                    let _ = child.wait();
                    break None;
                }
                std::thread::sleep(Duration::from_millis(5));
            }
            Err(_) => break None,
        }
    };
    let (acc, done) = reader.join().unwrap_or((Acc::default(), false));
    match status {
        Some(st) if st.success() && done => ChunkResult::Done(acc),
        Some(st) => ChunkResult::Died(format!("worker exited abnormally ({st})")),
        None => ChunkResult::Died(format!("worker exceeded its watchdog of {:.0}s", timeout.as_secs_f64())),
    }
}

/// find the single case responsible for a dying chunk
/// confirmed hangs per family (a hang costs a watchdog period; after `HANG_CAP` of them the rest
/// of the family is not run and the cap is reported)
static HANGS: Mutex<Vec<(usize, u64, u64)>> = Mutex::new(Vec::new());
const HANG_CAP: u64 = 10;
fn hangs_of(fam_idx: usize) -> u64 {
    HANGS.lock().unwrap().iter().find(|h| h.0 == fam_idx).map(|h| h.1).unwrap_or(0)
}
fn note_hang(fam_idx: usize, hang: bool, skipped: u64) {
    let mut g = HANGS.lock().unwrap();
    if let Some(h) = g.iter_mut().find(|h| h.0 == fam_idx) {
        h.1 += hang as u64;
        h.2 += skipped;
    } else {
        g.push((fam_idx, hang as u64, skipped));
    }
}

fn bisect(prop: &str, tier: Tier, fam_idx: usize, fam: &dyn Family, start: u64, end: u64, why: &str, rep: &Mutex<&mut Report>, single_timeout: Duration) {
    if hangs_of(fam_idx) >= HANG_CAP {
        note_hang(fam_idx, false, end - start);
        return;
    }
    if end - start == 1 {
        // confirm in a fresh process
        match run_chunk(prop, tier, fam_idx, start, end, single_timeout) {
            ChunkResult::Done(acc) => {
                // not reproducible on its own: machinery problem, not a verdict
                let mut r = rep.lock().unwrap();
                r.absorb(acc);
                if r.notes.len() < 40 {
                    r.notes.push(format!("family {} case {start} ({}): a worker died ({why}) but the case completes in a fresh process (borderline stack use under address-space randomisation); not judged", fam.name(), fam.crash_signature(start)));
                }
                r.count("worker_deaths_not_reproduced_in_a_fresh_process(not judged)", 1);
            }
            ChunkResult::Died(w2) => {
                let desc = fam.describe(start);
                let kind = if w2.contains("watchdog") { "hang" } else { "abort" };
                if kind == "hang" {
                    note_hang(fam_idx, true, 0);
                }
                let mut r = rep.lock().unwrap();
                r.violations.push(Violation {
                    signature: format!("{kind}:{}", fam.crash_signature(start)),
                    what: format!("{} (no unwinding panic): family {} case {start}: {}", w2, fam.name(), desc.chars().take(300).collect::<String>()),
                    case: json!({"engine": "sweep", "prop": prop, "tier": tier.name(), "family": fam_idx, "index": start}),
                });
            }
        }
        return;
    }
    let mid = start + (end - start) / 2;
    for (a, b) in [(start, mid), (mid, end)] {
        let to = Duration::from_secs_f64((single_timeout.as_secs_f64() * (b - a) as f64).min(600.0).max(single_timeout.as_secs_f64()));
        match run_chunk(prop, tier, fam_idx, a, b, to) {
            ChunkResult::Done(acc) => rep.lock().unwrap().absorb(acc),
            ChunkResult::Died(w) => bisect(prop, tier, fam_idx, fam, a, b, &w, rep, single_timeout),
        }
    }
}

pub fn parent(prop: &'static str, tier: Tier, maker: FamilyMaker, rep: &mut Report) {
    if crate::hist::replaying() {
        return;
    }
    let fams = maker(tier);
    let nt = crate::enumr::n_threads();
    // work list
    let mut work: Vec<(usize, u64, u64)> = Vec::new();
    let only: Option<usize> = std::env::var("VERIF_FAMILY").ok().and_then(|s| s.parse().ok());
    for (fi, f) in fams.iter().enumerate() {
        if only.map(|o| o != fi).unwrap_or(false) {
            continue;
        }
        let total = f.total();
        if total == 0 {
            continue;
        }
        let chunk = f.chunk_hint().unwrap_or((total / (nt as u64 * 6)).clamp(1, 2_000_000));
        let mut s = 0;
        while s < total {
            let e = (s + chunk).min(total);
            work.push((fi, s, e));
            s = e;
        }
    }
    let next = AtomicUsize::new(0);
    let t0 = Instant::now();
    let bounds: Vec<String> = fams.iter().map(|f| format!("{}: {} cases", f.name(), f.total())).collect();
    {
        let repm = Mutex::new(&mut *rep);
        std::thread::scope(|s| {
            for _ in 0..nt {
                s.spawn(|| loop {
                    let i = next.fetch_add(1, Ordering::Relaxed);
                    if i >= work.len() {
                        break;
                    }
                    let (fi, a, b) = work[i];
                    if hangs_of(fi) >= HANG_CAP {
                        note_hang(fi, false, b - a);
                        continue;
                    }
                    let (wd_chunk, wd_single) = fams[fi].watchdogs();
                    match run_chunk(prop, tier, fi, a, b, Duration::from_secs(wd_chunk)) {
                        ChunkResult::Done(acc) => repm.lock().unwrap().absorb(acc),
                        ChunkResult::Died(w) => {
                            if b - a > 1 {
                                eprintln!("  worker for family {} [{a},{b}) died: {w}; bisecting", fams[fi].name());
                            }
                            bisect(prop, tier, fi, fams[fi].as_ref(), a, b, &w, &repm, Duration::from_secs(wd_single))
                        }
                    }
                });
            }
        });
    }
    let capped: Vec<(usize, u64, u64)> = HANGS.lock().unwrap().iter().filter(|h| h.2 > 0).cloned().collect();
    for (fi, b) in bounds.into_iter().enumerate() {
        match capped.iter().find(|h| h.0 == fi) {
            Some(h) => {
                rep.bounds.push(format!("{b}: stopped after {} confirmed hangs, {} cases not run", h.1, h.2));
                rep.cap(format!("family {}: {} confirmed hangs (reported as violations); the remaining {} cases were not run", fams[fi].name(), h.1, h.2));
            }
            None => rep.bounds.push(format!("{b}: complete")),
        }
    }
    rep.notes.push(format!("E4: {} chunks in worker subprocesses, {:.1}s", work.len(), t0.elapsed().as_secs_f64()));

}

pub fn replay(case: &Value, maker: FamilyMaker) -> i32 {
    let tier = if case["tier"].as_str() == Some("thorough") { Tier::Thorough } else { Tier::Quick };
    let fams = maker(tier);
    let fi = case["family"].as_u64().unwrap_or(0) as usize;
    let idx = case["index"].as_u64().unwrap_or(0);
    println!("family {} case {idx}: {}", fams[fi].name(), fams[fi].describe(idx));
    crate::common::install_panic_hook();
    let mut acc = Acc::default();
    fams[fi].run_case(idx, &mut acc);
    for v in &acc.violations {
        println!("  {}", v.what);
    }
    if acc.violations.is_empty() {
        println!("  => no panic (an abort/hang would have killed this process)");
        0
    } else {
        1
    }
}
