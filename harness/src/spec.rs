//! Reference model of the documented surface language: lexer, recursive-descent parser,
//! malformedness classifier and renderer.  Never looks at exmex internals.
use crate::sym::{parse_lit_prefix, Sym, Table};

pub fn is_ident_start(c: char) -> bool {
    c.is_ascii_alphabetic() || c == '_' || ('α'..='ω').contains(&c) || ('Α'..='Ω').contains(&c)
}
pub fn is_ident_char(c: char) -> bool {
    is_ident_start(c) || c.is_ascii_digit()
}

#[derive(Clone, Copy, Debug, PartialEq, Eq)]
pub enum LitKind {
    /// literals of the symbolic data type
    Sym,
    /// "digits with at most one inner or leading or trailing dot"
    Number,
    /// scalar literals of the value type: digits[.digits] | true | false (arrays are never generated)
    Val,
}
impl LitKind {
    pub fn prefix(self, s: &str) -> Option<usize> {
        match self {
            LitKind::Sym => parse_lit_prefix(s).map(|x| x.1),
            LitKind::Val => {
                if s.starts_with('[') {
                    // array literal: comma separated numbers (optional sign, optional leading
                    // dot) or true / false, blanks around the elements; anything else between
                    // the brackets is no literal
                    let e = s.find(']')?;
                    let number = |x: &str| {
                        let x = x.strip_prefix(['-', '+']).unwrap_or(x);
                        let x = x.strip_prefix('.').map(|r| (r, true)).unwrap_or((x, false));
                        let (int, frac) = match x.0.split_once('.') {
                            Some((a, b)) if !x.1 => (a, Some(b)),
                            Some(_) => return false,
                            None => (x.0, None),
                        };
                        !int.is_empty() && int.bytes().all(|c| c.is_ascii_digit()) && frac.map(|f| !f.is_empty() && f.bytes().all(|c| c.is_ascii_digit())).unwrap_or(true)
                    };
                    let ok = s[1..e].split(',').all(|el| {
                        let el = el.trim();
                        el == "true" || el == "false" || number(el)
                    });
                    return if ok { Some(e + 1) } else { None };
                }
                for w in ["true", "false"] {
                    if s.starts_with(w) {
                        return Some(w.len());
                    }
                }
                let b = s.as_bytes();
                let mut n = 0;
                while n < b.len() && b[n].is_ascii_digit() {
                    n += 1;
                }
                if n == 0 {
                    return None;
                }
                if n < b.len() && b[n] == b'.' {
                    let mut m = n + 1;
                    while m < b.len() && b[m].is_ascii_digit() {
                        m += 1;
                    }
                    if m > n + 1 {
                        n = m;
                    }
                }
                Some(n)
            }
            LitKind::Number => {
                let mut dots = 0;
                let mut n = 0;
                for c in s.chars() {
                    if c == '.' {
                        dots += 1;
                    } else if !c.is_ascii_digit() {
                        break;
                    }
                    n += 1;
                }
                if (n > 1 && dots < 2) || (n == 1 && dots == 0) {
                    Some(n)
                } else {
                    None
                }
            }
        }
    }
}

#[derive(Clone, Debug, PartialEq, Eq, Hash)]
pub enum Tok {
    LPar,
    RPar,
    Comma,
    Lit(String),
    Const(u16),
    Var(String),
    Op(u16),
}

#[derive(Clone, Debug, PartialEq, Eq)]
pub enum LexErr {
    /// a character sequence that is neither number, operator, variable nor bracket
    Unknown(usize),
    /// documentation is silent
    UnclosedBrace,
}

pub fn lex(text: &str, t: &Table, lk: LitKind) -> Result<Vec<Tok>, LexErr> {
    let mut out = Vec::new();
    let mut p = 0;
    while p < text.len() {
        let rest = &text[p..];
        let c = rest.chars().next().unwrap();
        if c == ' ' {
            p += 1;
            continue;
        }
        if c == '(' {
            out.push(Tok::LPar);
            p += 1;
            continue;
        }
        if c == ')' {
            out.push(Tok::RPar);
            p += 1;
            continue;
        }
        if c == ',' {
            out.push(Tok::Comma);
            p += 1;
            continue;
        }
        if c == '{' {
            match rest.find('}') {
                Some(e) => {
                    out.push(Tok::Var(rest[1..e].to_string()));
                    p += e + 1;
                    continue;
                }
                None => return Err(LexErr::UnclosedBrace),
            }
        }
        if let Some(n) = lk.prefix(rest) {
            out.push(Tok::Lit(rest[..n].to_string()));
            p += n;
            continue;
        }
        // longest operator / constant name that matches exactly and - unless it is a binary
        // operator - is not continued by an identifier character
        let mut best: Option<(usize, u16)> = None;
        for (k, o) in t.ops.iter().enumerate() {
            if rest.starts_with(o.name) {
                let after = rest[o.name.len()..].chars().next();
                let ok = o.bin.is_some()
                    || match after {
                        None => true,
                        Some(a) => {
                            // name+next char must not form an identifier
                            !(is_ident_char(a) && name_is_ident(o.name))
                        }
                    };
                if ok && best.map(|b| o.name.len() > b.0).unwrap_or(true) {
                    best = Some((o.name.len(), k as u16));
                }
            }
        }
        if let Some((n, k)) = best {
            if t.ops[k as usize].constant.is_some() {
                out.push(Tok::Const(k));
            } else {
                out.push(Tok::Op(k));
            }
            p += n;
            continue;
        }
        if is_ident_start(c) {
            let n: usize = rest.chars().take_while(|c| is_ident_char(*c)).map(|c| c.len_utf8()).sum();
            out.push(Tok::Var(rest[..n].to_string()));
            p += n;
            continue;
        }
        return Err(LexErr::Unknown(p));
    }
    Ok(out)
}

fn name_is_ident(name: &str) -> bool {
    let mut cs = name.chars();
    match cs.next() {
        Some(c) if is_ident_start(c) => cs.all(is_ident_char),
        _ => false,
    }
}

// ---------------------------------------------------------------------------------------------

#[derive(Clone, Debug, PartialEq, Eq, Hash, PartialOrd, Ord)]
pub enum Tree {
    Lit(String),
    Const(u16),
    Var(String),
    Un(u16, Box<Tree>),
    Bin(u16, Box<Tree>, Box<Tree>),
}

impl Tree {
    pub fn lit(n: u32) -> Tree {
        Tree::Lit(n.to_string())
    }
    pub fn var(s: &str) -> Tree {
        Tree::Var(s.to_string())
    }
    pub fn un(k: u16, a: Tree) -> Tree {
        Tree::Un(k, Box::new(a))
    }
    pub fn bin(k: u16, a: Tree, b: Tree) -> Tree {
        Tree::Bin(k, Box::new(a), Box::new(b))
    }
    pub fn collect_vars(&self, out: &mut Vec<String>) {
        match self {
            Tree::Var(v) => {
                if !out.contains(v) {
                    out.push(v.clone())
                }
            }
            Tree::Un(_, a) => a.collect_vars(out),
            Tree::Bin(_, a, b) => {
                a.collect_vars(out);
                b.collect_vars(out);
            }
            _ => {}
        }
    }
    /// distinct names in Rust string order
    pub fn vars(&self) -> Vec<String> {
        let mut v = Vec::new();
        self.collect_vars(&mut v);
        v.sort();
        v
    }
    pub fn n_nodes(&self) -> usize {
        match self {
            Tree::Un(_, a) => 1 + a.n_nodes(),
            Tree::Bin(_, a, b) => 1 + a.n_nodes() + b.n_nodes(),
            _ => 1,
        }
    }
    pub fn n_leaves(&self) -> usize {
        match self {
            Tree::Un(_, a) => a.n_leaves(),
            Tree::Bin(_, a, b) => a.n_leaves() + b.n_leaves(),
            _ => 1,
        }
    }
    pub fn has_var(&self) -> bool {
        match self {
            Tree::Var(_) => true,
            Tree::Un(_, a) => a.has_var(),
            Tree::Bin(_, a, b) => a.has_var() || b.has_var(),
            _ => false,
        }
    }
    pub fn has_op(&self) -> bool {
        matches!(self, Tree::Un(..) | Tree::Bin(..))
    }
    /// value in the free term algebra; variables become Var(rank in `vars`)
    pub fn eval_sym(&self, vars: &[String], t: &Table) -> Sym {
        match self {
            Tree::Lit(s) => match parse_lit_prefix(s) {
                Some((v, n)) if n == s.len() => v,
                _ => panic!("harness: bad literal {s}"),
            },
            Tree::Const(k) => Sym::Lit(t.ops[*k as usize].constant.unwrap()),
            Tree::Var(v) => Sym::Var(vars.iter().position(|x| x == v).unwrap() as u32),
            Tree::Un(k, a) => Sym::un(*k, a.eval_sym(vars, t)),
            Tree::Bin(k, a, b) => Sym::bin(*k, a.eval_sym(vars, t), b.eval_sym(vars, t)),
        }
    }
    pub fn show(&self, t: &Table) -> String {
        match self {
            Tree::Lit(s) => s.clone(),
            Tree::Const(k) => t.ops[*k as usize].name.to_string(),
            Tree::Var(v) => format!("{{{v}}}"),
            Tree::Un(k, a) => format!("{}[{}]", t.ops[*k as usize].name, a.show(t)),
            Tree::Bin(k, a, b) => format!("({} {} {})", a.show(t), t.ops[*k as usize].name, b.show(t)),
        }
    }
    /// pre-order list of sub-tree paths (used by the shrinker)
    pub fn subtrees(&self) -> Vec<&Tree> {
        let mut v = vec![self];
        match self {
            Tree::Un(_, a) => v.extend(a.subtrees()),
            Tree::Bin(_, a, b) => {
                v.extend(a.subtrees());
                v.extend(b.subtrees());
            }
            _ => {}
        }
        v
    }
    /// replace the pre-order node number `idx` by `with`
    pub fn replace_at(&self, idx: usize, with: &Tree) -> Tree {
        fn go(t: &Tree, idx: usize, cur: &mut usize, with: &Tree) -> Tree {
            let me = *cur;
            *cur += 1;
            if me == idx {
                // skip numbering of the replaced subtree
                *cur += t.n_nodes() - 1;
                return with.clone();
            }
            match t {
                Tree::Un(k, a) => Tree::un(*k, go(a, idx, cur, with)),
                Tree::Bin(k, a, b) => {
                    let l = go(a, idx, cur, with);
                    let r = go(b, idx, cur, with);
                    Tree::bin(*k, l, r)
                }
                x => x.clone(),
            }
        }
        go(self, idx, &mut 0, with)
    }
}

#[derive(Clone, Copy, Debug, PartialEq, Eq)]
pub enum PErr {
    Empty,
    Unbalanced,
    TrailingOp,
    Count,
    /// malformed, but in none of the classes the properties name
    Other,
}

#[derive(Clone, Copy, Debug, Default, PartialEq, Eq)]
pub struct Classes {
    pub empty: bool,
    pub unbalanced: bool,
    pub trailing_op: bool,
    pub count: bool,
}
impl Classes {
    pub fn any(&self) -> bool {
        self.empty || self.unbalanced || self.trailing_op || self.count
    }
}

/// `toks[i]` is '(' : does its parenthesis group hold a comma on its own level?  (A binary
/// operator in prefix position directly followed by such a group is the call form of C08,
/// also for an operator that doubles as a sign.)
pub fn group_has_comma(toks: &[Tok], i: usize) -> bool {
    if !matches!(toks.get(i), Some(Tok::LPar)) {
        return false;
    }
    let mut depth = 0i64;
    for tk in &toks[i..] {
        match tk {
            Tok::LPar => depth += 1,
            Tok::RPar => {
                depth -= 1;
                if depth == 0 {
                    return false;
                }
            }
            Tok::Comma if depth == 1 => return true,
            _ => {}
        }
    }
    false
}

/// the four token-level malformedness classes named by C07 (the fifth - unknown character
/// sequence - is the lexer's error)
pub fn classify(toks: &[Tok], t: &Table) -> Classes {
    let mut c = Classes::default();
    if toks.is_empty() {
        c.empty = true;
        return c;
    }
    let mut depth = 0i64;
    for tk in toks {
        match tk {
            Tok::LPar => depth += 1,
            Tok::RPar => {
                depth -= 1;
                if depth < 0 {
                    c.unbalanced = true;
                }
            }
            _ => {}
        }
    }
    if depth != 0 {
        c.unbalanced = true;
    }
    if matches!(toks.last(), Some(Tok::Op(_))) {
        c.trailing_op = true;
    }
    let mut operands = 0i64;
    let mut binops = 0i64;
    for (i, tk) in toks.iter().enumerate() {
        match tk {
            Tok::Lit(_) | Tok::Var(_) | Tok::Const(_) => operands += 1,
            Tok::Op(k) => {
                let o = &t.ops[*k as usize];
                if o.bin.is_some() {
                    if !o.unary {
                        binops += 1;
                    } else {
                        // a sign is unary exactly at the start, after an operator, after '(' (or ',')
                        let prev = if i == 0 { None } else { Some(&toks[i - 1]) };
                        if matches!(prev, Some(Tok::Lit(_)) | Some(Tok::Var(_)) | Some(Tok::Const(_)) | Some(Tok::RPar)) || group_has_comma(toks, i + 1) {
                            binops += 1;
                        }
                    }
                }
            }
            _ => {}
        }
    }
    if operands != binops + 1 {
        c.count = true;
    }
    c
}

struct P<'a> {
    toks: &'a [Tok],
    p: usize,
    t: &'a Table,
}
impl<'a> P<'a> {
    fn peek(&self) -> Option<&'a Tok> {
        self.toks.get(self.p)
    }
    fn expr(&mut self, min_prio: i64) -> Result<Tree, ()> {
        let mut lhs = self.unary()?;
        loop {
            match self.peek() {
                Some(Tok::Op(k)) => {
                    let o = &self.t.ops[*k as usize];
                    match o.bin {
                        Some((p, _)) if p >= min_prio => {
                            self.p += 1;
                            let rhs = self.expr(p + 1)?;
                            lhs = Tree::bin(*k, lhs, rhs);
                        }
                        _ => break,
                    }
                }
                _ => break,
            }
        }
        Ok(lhs)
    }
    fn unary(&mut self) -> Result<Tree, ()> {
        let tk = self.peek().ok_or(())?;
        self.p += 1;
        match tk {
            Tok::Lit(s) => Ok(Tree::Lit(s.clone())),
            Tok::Const(k) => Ok(Tree::Const(*k)),
            Tok::Var(v) => Ok(Tree::Var(v.clone())),
            Tok::LPar => {
                let e = self.expr(i64::MIN)?;
                match self.peek() {
                    Some(Tok::RPar) => {
                        self.p += 1;
                        Ok(e)
                    }
                    _ => Err(()),
                }
            }
            Tok::Op(k) => {
                let o = &self.t.ops[*k as usize];
                if o.unary && !(o.bin.is_some() && group_has_comma(self.toks, self.p)) {
                    let a = self.unary()?;
                    Ok(Tree::un(*k, a))
                } else if o.bin.is_some() {
                    // call form op(a, b) = ((a) op (b))
                    if !matches!(self.peek(), Some(Tok::LPar)) {
                        return Err(());
                    }
                    self.p += 1;
                    let a = self.expr(i64::MIN)?;
                    if !matches!(self.peek(), Some(Tok::Comma)) {
                        return Err(());
                    }
                    self.p += 1;
                    let b = self.expr(i64::MIN)?;
                    if !matches!(self.peek(), Some(Tok::RPar)) {
                        return Err(());
                    }
                    self.p += 1;
                    Ok(Tree::bin(*k, a, b))
                } else {
                    Err(())
                }
            }
            Tok::RPar | Tok::Comma => Err(()),
        }
    }
}

pub fn parse(toks: &[Tok], t: &Table) -> Result<Tree, PErr> {
    let mut p = P { toks, p: 0, t };
    let r = p.expr(i64::MIN);
    let ok = match r {
        Ok(tree) if p.p == toks.len() => Some(tree),
        _ => None,
    };
    match ok {
        Some(tree) => Ok(tree),
        None => {
            let c = classify(toks, t);
            Err(if c.empty {
                PErr::Empty
            } else if c.unbalanced {
                PErr::Unbalanced
            } else if c.trailing_op {
                PErr::TrailingOp
            } else if c.count {
                PErr::Count
            } else {
                PErr::Other
            })
        }
    }
}

#[derive(Clone, Debug, PartialEq, Eq)]
pub enum SpecResult {
    Ok(Tree),
    /// must be rejected by every parser (one of the five classes of C07)
    MustReject(&'static str),
    /// malformed or unspecified in a way no property constrains
    Unconstrained(&'static str),
}

pub fn read(text: &str, t: &Table, lk: LitKind) -> SpecResult {
    match lex(text, t, lk) {
        Err(LexErr::Unknown(_)) => SpecResult::MustReject("unknown-token"),
        Err(LexErr::UnclosedBrace) => SpecResult::Unconstrained("unclosed-brace"),
        Ok(toks) => match parse(&toks, t) {
            Ok(tree) => {
                let c = classify(&toks, t);
                if c.any() {
                    panic!("harness self-check: parsed text {text:?} classified as malformed {c:?}");
                }
                SpecResult::Ok(tree)
            }
            Err(PErr::Empty) => SpecResult::MustReject("empty"),
            Err(PErr::Unbalanced) => SpecResult::MustReject("unbalanced"),
            Err(PErr::TrailingOp) => SpecResult::MustReject("trailing-operator"),
            Err(PErr::Count) => SpecResult::MustReject("operand-count"),
            Err(PErr::Other) => SpecResult::Unconstrained("other"),
        },
    }
}

// ---------------------------------------------------------------------------------------------
// renderer

/// per-node rendering choice: bits 0-1 extra parentheses (0..=2), bit 2 the kind-specific
/// alternative (variable: braced <-> bare; unary: parenthesised <-> juxtaposed operand;
/// alphabetic binary: call form)
pub type Choice = u8;
pub const ALT: u8 = 4;

#[derive(Clone, Copy, PartialEq, Eq, Debug)]
enum Kind {
    Atom,
    UnApp,
    Infix(i64),
}

pub struct Renderer<'a> {
    pub t: &'a Table,
    pub lk: LitKind,
}

fn needs_brace(name: &str) -> bool {
    let mut cs = name.chars();
    match cs.next() {
        Some(c) if is_ident_start(c) => !cs.all(is_ident_char),
        _ => true,
    }
}

impl<'a> Renderer<'a> {
    /// number of nodes = number of choice slots (pre-order)
    pub fn alt_available(&self, node: &Tree) -> bool {
        match node {
            Tree::Lit(_) | Tree::Const(_) => false,
            Tree::Var(v) => !needs_brace(v) && !self.is_op_name(v),
            Tree::Un(_, a) => !matches!(**a, Tree::Bin(..)),
            Tree::Bin(k, _, _) => {
                let o = &self.t.ops[*k as usize];
                self.t.call_all || (o.is_alpha() && !o.unary)
            }
        }
    }
    fn is_op_name(&self, v: &str) -> bool {
        self.t.ops.iter().any(|o| o.name == v)
    }
    /// token strings for `tree` under `choices` (pre-order, consumed via `pos`)
    fn go(&self, tree: &Tree, choices: &[Choice], pos: &mut usize, out: &mut Vec<String>) -> Kind {
        let ch = choices.get(*pos).copied().unwrap_or(0);
        *pos += 1;
        let extra = (ch & 3) as usize;
        let alt = ch & ALT != 0;
        for _ in 0..extra {
            out.push("(".into());
        }
        let kind = match tree {
            Tree::Lit(s) => {
                out.push(s.clone());
                Kind::Atom
            }
            Tree::Const(k) => {
                out.push(self.t.ops[*k as usize].name.to_string());
                Kind::Atom
            }
            Tree::Var(v) => {
                let must = needs_brace(v) || self.is_op_name(v);
                if must || alt {
                    out.push(format!("{{{v}}}"));
                } else {
                    out.push(v.clone());
                }
                Kind::Atom
            }
            Tree::Un(k, a) => {
                let o = &self.t.ops[*k as usize];
                out.push(o.name.to_string());
                let child_is_infix_default = matches!(**a, Tree::Bin(..));
                // render child into a scratch buffer to learn its kind
                let mut buf = Vec::new();
                let ck = self.go(a, choices, pos, &mut buf);
                let signlike = o.bin.is_some() || !o.is_alpha();
                let want_paren = if matches!(ck, Kind::Infix(_)) {
                    true
                } else if child_is_infix_default {
                    // call-form child: function-like default keeps parentheses
                    !signlike
                } else {
                    // default: sign-like juxtaposed, function-like parenthesised; alt toggles
                    (!signlike) ^ alt
                };
                if want_paren {
                    out.push("(".into());
                    out.extend(buf);
                    out.push(")".into());
                } else {
                    out.extend(buf);
                }
                Kind::UnApp
            }
            Tree::Bin(k, a, b) => {
                let o = &self.t.ops[*k as usize];
                let (p, _) = o.bin.unwrap();
                if alt && (self.t.call_all || (o.is_alpha() && !o.unary)) {
                    out.push(o.name.to_string());
                    out.push("(".into());
                    self.go(a, choices, pos, out);
                    out.push(",".into());
                    self.go(b, choices, pos, out);
                    out.push(")".into());
                    Kind::Atom
                } else {
                    let mut lb = Vec::new();
                    let lk = self.go(a, choices, pos, &mut lb);
                    let lp = matches!(lk, Kind::Infix(q) if q < p);
                    if lp {
                        out.push("(".into());
                    }
                    out.extend(lb);
                    if lp {
                        out.push(")".into());
                    }
                    out.push(o.name.to_string());
                    let mut rb = Vec::new();
                    let rk = self.go(b, choices, pos, &mut rb);
                    let rp = matches!(rk, Kind::Infix(q) if q <= p);
                    if rp {
                        out.push("(".into());
                    }
                    out.extend(rb);
                    if rp {
                        out.push(")".into());
                    }
                    Kind::Infix(p)
                }
            }
        };
        for _ in 0..extra {
            out.push(")".into());
        }
        if extra > 0 {
            Kind::Atom
        } else {
            kind
        }
    }

    pub fn tokens(&self, tree: &Tree, choices: &[Choice]) -> Vec<String> {
        let mut out = Vec::new();
        let mut pos = 0;
        self.go(tree, choices, &mut pos, &mut out);
        out
    }

    /// blank style 0: blanks only where the lexer needs them; 1: one blank between all tokens;
    /// 2: two blanks between all tokens and around the text
    pub fn join(&self, toks: &[String], blank: u8) -> String {
        match blank {
            1 => toks.join(" "),
            2 => format!("  {}  ", toks.join("  ")),
            _ => {
                let mut s = String::new();
                let mut n_prev = 0usize;
                for tk in toks {
                    if s.is_empty() {
                        s.push_str(tk);
                    } else {
                        let cand = format!("{s}{tk}");
                        let ok = match (lex(&cand, self.t, self.lk), lex(tk, self.t, self.lk)) {
                            (Ok(a), Ok(b)) => a.len() == n_prev + b.len() && a[n_prev..] == b[..] && {
                                // the prefix must be unchanged too
                                match lex(&s, self.t, self.lk) {
                                    Ok(pre) => pre[..] == a[..n_prev],
                                    Err(_) => false,
                                }
                            },
                            _ => false,
                        };
                        if ok {
                            s = cand;
                        } else {
                            s.push(' ');
                            s.push_str(tk);
                        }
                    }
                    n_prev = lex(&s, self.t, self.lk).map(|v| v.len()).unwrap_or(0);
                }
                s
            }
        }
    }

    pub fn render(&self, tree: &Tree, choices: &[Choice], blank: u8) -> String {
        self.join(&self.tokens(tree, choices), blank)
    }
    pub fn render_default(&self, tree: &Tree) -> String {
        self.render(tree, &[], 0)
    }
}

/// all choice vectors for `tree` with total deviation cost <= `max_dev`
/// (cost = extra parenthesis levels + 1 per alternative taken)
pub fn choice_vectors(r: &Renderer, tree: &Tree, max_dev: usize, max_extra: u8) -> Vec<Vec<Choice>> {
    let nodes = tree.subtrees();
    let n = nodes.len();
    let alts: Vec<bool> = nodes.iter().map(|nd| r.alt_available(nd)).collect();
    let mut out = Vec::new();
    let mut cur = vec![0u8; n];
    fn rec(i: usize, left: usize, n: usize, alts: &[bool], max_extra: u8, cur: &mut Vec<u8>, out: &mut Vec<Vec<u8>>) {
        if i == n {
            out.push(cur.clone());
            return;
        }
        for extra in 0..=max_extra {
            if extra as usize > left {
                break;
            }
            for alt in 0..=(alts[i] as u8) {
                let cost = extra as usize + alt as usize;
                if cost > left {
                    continue;
                }
                cur[i] = extra | if alt == 1 { ALT } else { 0 };
                rec(i + 1, left - cost, n, alts, max_extra, cur, out);
            }
        }
        cur[i] = 0;
    }
    rec(0, max_dev, n, &alts, max_extra, &mut cur, &mut out);
    out
}
