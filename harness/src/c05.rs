//! C05 - a partial derivative evaluates to the mathematical derivative.
use crate::common::*;
use crate::enumr::*;
use crate::numty::*;
use crate::report::*;
use crate::spec::{self, LitKind, Renderer, SpecResult, Tree};
use crate::sym::Table;
use exmex::prelude::*;
use exmex::{DeepEx, DiffDataType, Differentiate, ExResult, Express};
use num::Zero;
use serde_json::json;
use std::sync::Arc;

#[derive(Clone, Copy, Debug, PartialEq, Eq)]
pub enum Prov {
    FlatParse,
    DeepParse,
    FlatToDeep,
    DeepToFlat,
}
pub const PROVS: [Prov; 4] = [Prov::FlatParse, Prov::DeepParse, Prov::FlatToDeep, Prov::DeepToFlat];

/// build the expression with the given provenance, differentiate along `idxs` one after the
/// other, and hand an evaluator to `f`
pub fn with_derivative<T, R>(text: &str, prov: Prov, idxs: &[usize], f: impl FnOnce(&dyn Fn(&[T]) -> ExResult<T>, &[String]) -> R) -> Result<R, String>
where
    T: DiffDataType + Num,
    <T as std::str::FromStr>::Err: std::fmt::Debug,
{
    let e = |er: exmex::ExError| er.msg().to_string();
    match prov {
        Prov::FlatParse | Prov::DeepToFlat => {
            let mut fl = if prov == Prov::FlatParse {
                FlatEx::<T, NumOps<T>>::parse(text).map_err(e)?
            } else {
                FlatEx::<T, NumOps<T>>::from_deepex(DeepEx::<T, NumOps<T>>::parse(text).map_err(e)?).map_err(e)?
            };
            for &i in idxs {
                fl = fl.partial(i).map_err(e)?;
            }
            let names = fl.var_names().to_vec();
            Ok(f(&|v: &[T]| fl.eval(v), &names))
        }
        Prov::DeepParse | Prov::FlatToDeep => {
            let mut d = if prov == Prov::DeepParse {
                DeepEx::<T, NumOps<T>>::parse(text).map_err(e)?
            } else {
                FlatEx::<T, NumOps<T>>::parse(text).map_err(e)?.to_deepex().map_err(e)?
            };
            for &i in idxs {
                d = d.partial(i).map_err(e)?;
            }
            let names = d.var_names().to_vec();
            Ok(f(&|v: &[T]| d.eval(v), &names))
        }
    }
}

fn f64_derivative_at(text: &str, prov: Prov, idxs: &[usize], pt: &[f64]) -> Option<f64> {
    let r = match prov {
        Prov::FlatParse | Prov::DeepToFlat => {
            let mut fl = if prov == Prov::FlatParse { FlatEx::<f64>::parse(text).ok()? } else { FlatEx::<f64>::from_deepex(DeepEx::<f64>::parse(text).ok()?).ok()? };
            for &i in idxs {
                fl = fl.partial(i).ok()?;
            }
            fl.eval(pt).ok()?
        }
        _ => {
            let mut d = if prov == Prov::DeepParse { DeepEx::<f64>::parse(text).ok()? } else { FlatEx::<f64>::parse(text).ok()?.to_deepex().ok()? };
            for &i in idxs {
                d = d.partial(i).ok()?;
            }
            d.eval(pt).ok()?
        }
    };
    Some(r)
}

/// (the last three lie outside the positive quadrant: `(x^2)^1.5`, `|x|`-like behaviour)
pub const POINTS: [(f64, f64); 11] = [(0.37, 0.61), (0.83, 0.29), (0.55, 0.92), (0.21, 0.48), (1.7, 2.3), (2.9, 1.3), (1.2, 1.9), (2.4, 2.8), (-2.75, 0.61), (-0.6, -1.3), (1.4, -0.45)];

fn seed1(vals: &[f64], i: usize) -> Vec<Jet<Fe>> {
    vals.iter().enumerate().map(|(k, v)| if k == i { Jet::variable(Fe::exact(*v)) } else { Jet::constant(Fe::exact(*v)) }).collect()
}
fn seed2(vals: &[f64], i: usize, j: usize) -> Vec<Jet<Jet<Fe>>> {
    vals.iter()
        .enumerate()
        .map(|(k, v)| Jet {
            v: Jet { v: Fe::exact(*v), d: Fe::exact(if k == i { 1.0 } else { 0.0 }), dep: true },
            d: Jet { v: Fe::exact(if k == j { 1.0 } else { 0.0 }), d: Fe::exact(0.0), dep: false },
            dep: true,
        })
        .collect()
}

/// the fixed float point (px, py) extended to n variables (pairwise different coordinates)
pub fn point_n(px: f64, py: f64, n: usize) -> Vec<f64> {
    (0..n).map(|k| if k == 0 { px } else if k == 1 { py } else { 0.5 * px + 0.25 * py + 0.43 * (k as f64 - 1.0) }).collect()
}

/// is the reference derivative defined at one of the fixed float points?  (A refused
/// differentiation is only judged if the function has a sampled point in the interior of its
/// domain; `(2-2)^x^(2-2)` = (0^x)^0 has none.)
fn reference_defined_somewhere(tree: &Tree, t: &Table, idxs: &[usize]) -> bool {
    let vars = tree.vars();
    POINTS.iter().any(|(px, py)| {
        let pt: Vec<f64> = point_n(*px, *py, vars.len());
        let refd: Fe = if idxs.len() == 1 { eval_num::<Jet<Fe>>(tree, t, &vars, &seed1(&pt, idxs[0])).d } else { eval_num::<Jet<Jet<Fe>>>(tree, t, &vars, &seed2(&pt, idxs[0], idxs[1])).d.d };
        refd.defined()
    })
}

pub struct Verdict {
    pub conclusive: usize,
    pub bad: Option<String>,
}

/// compare the library's derivative (through Fe) with the reference jets at the fixed points
pub fn compare_float(tree: &Tree, t: &Table, text: &str, prov: Prov, idxs: &[usize], acc: &mut Acc) -> Result<Verdict, String> {
    let vars = tree.vars();
    with_derivative::<Fe, Verdict>(text, prov, idxs, |ev, names| {
        let mut v = Verdict { conclusive: 0, bad: None };
        if names != vars.as_slice() {
            v.bad = Some(format!("derivative lists variables {names:?} instead of {vars:?}"));
            return v;
        }
        for (px, py) in POINTS {
            let pt: Vec<f64> = point_n(px, py, vars.len());
            let refd: Fe = if idxs.len() == 1 { eval_num::<Jet<Fe>>(tree, t, &vars, &seed1(&pt, idxs[0])).d } else { eval_num::<Jet<Jet<Fe>>>(tree, t, &vars, &seed2(&pt, idxs[0], idxs[1])).d.d };
            let fe_pt: Vec<Fe> = pt.iter().map(|x| Fe::exact(*x)).collect();
            acc.transitions += 1;
            let lib = match ev(&fe_pt) {
                Ok(x) => x,
                Err(e) => {
                    v.bad = Some(format!("evaluation of the derivative failed: {}", e.msg()));
                    return v;
                }
            };
            // binding of the Fe model to the plain f64 path
            if let Some(plain) = f64_derivative_at(text, prov, idxs, &pt) {
                if !(plain.to_bits() == lib.v.to_bits() || (plain.is_nan() && lib.v.is_nan())) {
                    println!("MACHINERY-FAILURE property=C05 the error-bounded float type does not mirror f64: {text:?} {prov:?} d{idxs:?} at {pt:?}: f64 {plain:?} vs Fe {:?}", lib.v);
                    std::process::exit(2);
                }
            }
            if !(refd.defined() && lib.defined()) {
                acc.count("points_outside_the_domain_or_non-finite(inconclusive)", 1);
                continue;
            }
            let err = lib.e + refd.e;
            let mag = lib.v.abs().max(refd.v.abs());
            if !(err <= 1e-6 * mag || err <= 1e-9) {
                acc.count("points_with_large_rounding_bounds(inconclusive)", 1);
                continue;
            }
            v.conclusive += 1;
            if (lib.v - refd.v).abs() > 16.0 * err + 1e-12 * mag + 1e-300 {
                v.bad = Some(format!("at {:?}: derivative expression gives {:?} (+-{:.1e}), forward-mode reference gives {:?} (+-{:.1e})", pt, lib.v, lib.e, refd.v, refd.e));
                return v;
            }
        }
        v
    })
}

const QGRID: [(i64, i64); 12] = [(-2, 1), (-1, 2), (1, 3), (1, 1), (3, 2), (3, 1), (5, 1), (-7, 3), (2, 5), (11, 4), (-1, 1), (4, 7)];

fn rational_fragment(tree: &Tree, t: &Table) -> bool {
    match tree {
        Tree::Lit(_) | Tree::Var(_) => true,
        Tree::Const(_) => false,
        Tree::Un(k, a) => matches!(t.ops[*k as usize].name, "+" | "-") && rational_fragment(a, t),
        Tree::Bin(k, a, b) => matches!(t.ops[*k as usize].name, "+" | "-" | "*" | "/" | "^") && rational_fragment(a, t) && rational_fragment(b, t),
    }
}

/// exact comparison over Q on a rational grid
pub fn compare_exact(tree: &Tree, t: &Table, text: &str, prov: Prov, idxs: &[usize], acc: &mut Acc) -> Result<Verdict, String> {
    let vars = tree.vars();
    with_derivative::<Q, Verdict>(text, prov, idxs, |ev, names| {
        let mut v = Verdict { conclusive: 0, bad: None };
        if names != vars.as_slice() {
            v.bad = Some(format!("derivative lists variables {names:?} instead of {vars:?}"));
            return v;
        }
        let grid: Vec<Vec<Q>> = if vars.len() <= 1 {
            QGRID.iter().map(|(n, d)| vec![Q::frac(*n, *d); vars.len()]).collect()
        } else {
            let mut g = Vec::new();
            for a in &QGRID[..6] {
                for b in &QGRID[3..9] {
                    // (further variables: fixed values that differ from each other and from a, b)
                    let mut p = vec![Q::frac(a.0, a.1), Q::frac(b.0, b.1)];
                    for k in 2..vars.len() {
                        p.push(Q::frac(2 * k as i64 + 1, k as i64 + 5));
                    }
                    g.push(p);
                }
            }
            g
        };
        for pt in grid {
            let seeded: Vec<Jet<Q>> = pt.iter().enumerate().map(|(k, q)| if k == idxs[0] { Jet::variable(q.clone()) } else { Jet::constant(q.clone()) }).collect();
            let refj = eval_num::<Jet<Q>>(tree, t, &vars, &seeded);
            if !refj.defined() {
                acc.count("rational_points_where_the_reference_is_undefined(skipped)", 1);
                continue;
            }
            acc.transitions += 1;
            let lib = match ev(&pt) {
                Ok(x) => x,
                Err(e) => {
                    v.bad = Some(format!("evaluation of the derivative failed: {}", e.msg()));
                    return v;
                }
            };
            v.conclusive += 1;
            if lib != refj.d {
                v.bad = Some(format!("at {pt:?}: derivative expression gives {lib:?}, exact derivative is {:?}", refj.d));
                return v;
            }
        }
        v
    })
}

fn judge_tree(tree: &Tree, t: &Table, text: &str, provs: &[Prov], second_order: bool, acc: &mut Acc) {
    let vars = tree.vars();
    acc.states += 1;
    if tree.has_op() && !vars.is_empty() {
        acc.nontrivial += 1;
    }
    let mut index_seqs: Vec<Vec<usize>> = (0..vars.len()).map(|i| vec![i]).collect();
    if second_order {
        for i in 0..vars.len() {
            for j in 0..vars.len() {
                index_seqs.push(vec![i, j]);
            }
        }
    }
    for idxs in &index_seqs {
        let class = idxs.iter().map(|i| no_rule_class(tree, t, &vars[*i])).fold(NoRule::None, |a, c| if a == NoRule::Hard || c == NoRule::Hard { NoRule::Hard } else if a == NoRule::Soft || c == NoRule::Soft { NoRule::Soft } else { NoRule::None });
        for &prov in provs {
            acc.evaluations += 1;
            let res = guard(|| compare_float(tree, t, text, prov, idxs, acc));
            let mut report = |sig: String, what: String| {
                acc.violate(Violation { signature: sig, what, case: json!({"engine": "c05", "text": text, "prov": format!("{prov:?}"), "idxs": idxs}) });
            };
            match (class, res) {
                (_, Err(p)) => report(format!("panic:{}", panic_site(&p)), format!("{prov:?} d{idxs:?} of {text:?} panicked: {p}")),
                (NoRule::Hard, Ok(Ok(_))) => report(
                    format!("no-rule-operator-accepted:{}", canon_ops(tree, t)),
                    format!("{prov:?}: {text:?} contains an operator without derivative rule above variable {:?}, but partial{idxs:?} returned an expression", idxs.iter().map(|i| &vars[*i]).collect::<Vec<_>>()),
                ),
                (NoRule::Hard, Ok(Err(_))) => acc.count("derivatives_correctly_refused(no rule)", 1),
                (NoRule::Soft, Ok(Err(_))) => acc.count("derivatives_refused_because_of_a_no-rule_operator_over_another_variable(allowed)", 1),
                (NoRule::None, Ok(Err(_))) if !reference_defined_somewhere(tree, t, idxs) => acc.count("derivatives_refused_for_a_function_without_a_sampled_interior_point_of_its_domain(not judged)", 1),
                (NoRule::None, Ok(Err(m))) => report(format!("differentiation-failed:{}", canon_ops(tree, t)), format!("{prov:?}: partial{idxs:?} of the differentiable expression {text:?} failed: {m}")),
                (_, Ok(Ok(v))) => {
                    if let Some(b) = v.bad {
                        report(format!("wrong-derivative:{prov:?}:{}", canon_ops(tree, t)), format!("{prov:?} d{idxs:?} of {text:?}: {b}"));
                    } else if v.conclusive >= 3 {
                        acc.count("derivatives_confirmed_at_>=3_conclusive_float_points", 1);
                    } else {
                        acc.count("derivatives_undecided_over_floats(<3 conclusive points)", 1);
                    }
                }
            }
            // exact arithmetic on the rational fragment (first order)
            if idxs.len() == 1 && rational_fragment(tree, t) {
                let res = guard(|| compare_exact(tree, t, text, prov, idxs, acc));
                match res {
                    Err(p) => acc.violate(Violation { signature: format!("panic:{}", panic_site(&p)), what: format!("{prov:?} d{idxs:?} of {text:?} over Q panicked: {p}"), case: json!({"engine": "c05", "text": text, "prov": format!("{prov:?}"), "idxs": idxs}) }),
                    Ok(Err(_)) if !reference_defined_somewhere(tree, t, idxs) => acc.count("derivatives_refused_for_a_function_without_a_sampled_interior_point_of_its_domain(not judged)", 1),
                    Ok(Err(m)) => acc.violate(Violation { signature: format!("differentiation-failed-Q:{}", canon_ops(tree, t)), what: format!("{prov:?}: partial{idxs:?} of {text:?} over exact rationals failed: {m}"), case: json!({"engine": "c05", "text": text, "prov": format!("{prov:?}"), "idxs": idxs}) }),
                    Ok(Ok(v)) => {
                        if let Some(b) = v.bad {
                            acc.violate(Violation { signature: format!("wrong-derivative-Q:{prov:?}:{}", canon_ops(tree, t)), what: format!("{prov:?} d{idxs:?} of {text:?} (exact rationals): {b}"), case: json!({"engine": "c05", "text": text, "prov": format!("{prov:?}"), "idxs": idxs}) });
                        } else if v.conclusive > 0 {
                            acc.count("derivatives_confirmed_exactly_over_Q", 1);
                        }
                    }
                }
            }
        }
    }
}

/// operator skeleton of a tree (signature of derivative findings)
pub fn canon_ops(tree: &Tree, t: &Table) -> String {
    match tree {
        Tree::Lit(_) | Tree::Const(_) => "c".into(),
        Tree::Var(_) => "v".into(),
        Tree::Un(k, a) => format!("{}({})", t.ops[*k as usize].name, canon_ops(a, t)),
        Tree::Bin(k, a, b) => format!("({}{}{})", canon_ops(a, t), t.ops[*k as usize].name, canon_ops(b, t)),
    }
}

pub fn replay(case: &serde_json::Value) -> i32 {
    install_panic_hook();
    let t = num_table();
    let text = case["text"].as_str().unwrap_or("");
    let SpecResult::Ok(tree) = spec::read(text, &t, LitKind::Number) else { return 2 };
    let mut acc = Acc::default();
    judge_tree(&tree, &t, text, &PROVS, true, &mut acc);
    for v in &acc.violations {
        println!("{}", v.what);
    }
    if acc.violations.is_empty() {
        println!("derivatives of {text:?} agree with the reference");
        0
    } else {
        1
    }
}

fn ops(t: &Table, names: &[&str], unary: bool) -> Vec<u16> {
    names.iter().map(|n| t.ops.iter().position(|o| o.name == *n && if unary { o.unary } else { o.bin.is_some() }).unwrap() as u16).collect()
}

pub fn campaign(t: &Arc<Table>, al: Alphabet, sizes: &[(usize, usize)], provs: &[Prov], second: bool, rep: &mut Report, name: &str) {
    let space = TreeSpace::new(al, sizes);
    let t0 = std::time::Instant::now();
    let accs = par_ranges(space.total, 64, install_panic_hook, |st, en, acc| {
        let r = Renderer { t, lk: LitKind::Number };
        for i in st..en {
            let tree = space.get(i);
            let text = r.render_default(&tree);
            match spec::read(&text, t, LitKind::Number) {
                SpecResult::Ok(t2) if t2 == tree => {}
                o => {
                    println!("MACHINERY-FAILURE property=C05 reference does not read back {text:?}: {o:?}");
                    std::process::exit(2);
                }
            }
            judge_tree(&tree, t, &text, provs, second, acc);
            if i % 30011 == 0 {
                acc.sample(json!({"campaign": name, "text": text}));
            }
        }
    });
    for a in accs {
        rep.absorb(a);
    }
    rep.bounds.push(format!("{name}: {} trees (sizes {sizes:?}) x every variable{} x provenances {provs:?}: complete in {:.1}s", space.total, if second { " x orders 1-2 (all index pairs)" } else { "" }, t0.elapsed().as_secs_f64()));
}

pub const RULE_UN: [&str; 20] = ["+", "-", "sqrt", "ln", "log", "log2", "log10", "exp", "sin", "cos", "tan", "asin", "acos", "atan", "sinh", "cosh", "tanh", "asinh", "acosh", "atanh"];

pub fn run(tier: Tier) -> i32 {
    let mut rep = Report::new("C05", tier);
    rep.rule = "all trees of the listed sizes over + - * / ^, unary +/-, the 18 differentiable functions (and the operators without rule), leaves {x, y, 2, 0.5, 3}; every variable index; provenances FlatEx::parse, DeepEx::parse, to_deepex, from_deepex; order 1 and (small sizes) 2; oracle: forward-mode jets on the reference tree - exact over Q on the rational fragment, f64 with running error bounds elsewhere (library side evaluated through the same error-bounded data type, value parts bit-identical to the plain f64 path); distinct = trees; non-trivial = has an operator and a variable".into();
    rep.assumptions = vec![
        "float verdicts: violation iff the difference exceeds 16x the sum of both first-order rounding bounds (+1e-12 relative); points with large bounds or outside the domain are inconclusive and reported".into(),
        "libm functions are accurate to 2-4 ulp".into(),
    ];
    let t = num_table();
    let leaves = |names: &[&str]| -> Vec<Tree> { names.iter().map(|n| if n.chars().next().unwrap().is_ascii_digit() { Tree::Lit(n.to_string()) } else { Tree::var(n) }).collect() };
    let bins5 = ops(&t, &["^", "*", "/", "+", "-"], false);
    let bins_all = ops(&t, &["^", "*", "/", "+", "-", "atan2", "min", "max"], false);
    let uns_rule = ops(&t, &RULE_UN, true);
    let mut uns_all = uns_rule.clone();
    uns_all.extend(ops(&t, &NO_RULE_UN, true));
    let uns_few = ops(&t, &["-", "sin", "ln", "sqrt", "atanh", "abs"], true);
    let th = tier.thorough();
    campaign(&t, Alphabet { leaves: leaves(&["x", "y", "2", "0.5", "3"]), uns: uns_all.clone(), bins: bins_all.clone() }, &[(1, 0), (1, 1), (1, 2), (2, 0), (2, 1)], &PROVS, true, &mut rep, "small-all-ops-order2");
    campaign(&t, Alphabet { leaves: leaves(&["x", "y", "2", "0.5"]), uns: vec![], bins: bins5.clone() }, &[(3, 0)], &PROVS, true, &mut rep, "n3-arith-order2");
    if th {
        campaign(&t, Alphabet { leaves: leaves(&["x", "y", "2", "0.5", "3"]), uns: uns_all.clone(), bins: bins_all.clone() }, &[(2, 2), (3, 1)], &[Prov::FlatParse, Prov::DeepParse], false, &mut rep, "n3u1-all-ops");
        campaign(&t, Alphabet { leaves: leaves(&["x", "y", "2"]), uns: uns_few.clone(), bins: bins5.clone() }, &[(3, 2)], &[Prov::FlatParse, Prov::DeepParse], false, &mut rep, "n3u2-few");
        campaign(&t, Alphabet { leaves: leaves(&["x", "y", "2", "3"]), uns: vec![], bins: bins5.clone() }, &[(4, 0)], &PROVS, false, &mut rep, "n4-arith");
        campaign(&t, Alphabet { leaves: leaves(&["x", "2"]), uns: ops(&t, &["-"], true), bins: ops(&t, &["*", "/", "+", "-", "^"], false) }, &[(4, 1), (5, 0)], &[Prov::FlatParse, Prov::DeepParse], false, &mut rep, "n5-single-var");
    } else {
        campaign(&t, Alphabet { leaves: leaves(&["x", "y", "2", "0.5"]), uns: uns_few.clone(), bins: bins5.clone() }, &[(2, 2), (3, 1)], &[Prov::FlatParse, Prov::DeepParse], false, &mut rep, "n3u1-few");
        campaign(&t, Alphabet { leaves: leaves(&["x", "2"]), uns: vec![], bins: bins5.clone() }, &[(4, 0)], &[Prov::FlatParse, Prov::DeepParse], false, &mut rep, "n4-single-var");
    }
    // three variables on up to three nesting levels (a nested level that mentions only some of
    // the variables of the whole expression)
    if th {
        campaign(&t, Alphabet { leaves: leaves(&["x", "y", "z"]), uns: ops(&t, &["sin", "-", "exp"], true), bins: ops(&t, &["*", "+", "/"], false) }, &[(3, 1), (3, 2), (4, 1)], &PROVS, false, &mut rep, "three-variables-nested");
    } else {
        campaign(&t, Alphabet { leaves: leaves(&["x", "y", "z"]), uns: ops(&t, &["sin", "-"], true), bins: ops(&t, &["*", "/"], false) }, &[(3, 1), (3, 2)], &PROVS, false, &mut rep, "three-variables-nested");
    }
    let _ = Q::int(0).r().map(|r| r.is_zero());
    // many operators on one level with mixed priorities (the application order of a deep
    // level must be the same for evaluation and differentiation)
    {
        let mut texts: Vec<String> = Vec::new();
        for n in if tier.thorough() { vec![19usize, 20, 21, 22, 23, 30, 40, 64] } else { vec![20usize, 21, 22, 33] } {
            // n operators: c - x*1 - x*2 - ...   and   x / y*2 / x*3 / ...   and a cycle over - * / +
            texts.push(format!("7{}", (1..=n / 2).map(|k| format!("-x*{k}")).collect::<String>()));
            texts.push(format!("x{}", (1..=n / 2).map(|k| format!("/y*{}", k + 1)).collect::<String>()));
            texts.push(format!("y{}", (0..n).map(|k| format!("{}{}", ["-", "*", "/", "+"][k % 4], ["x", "3", "y", "2"][(k / 2) % 4])).collect::<String>()));
            texts.push(format!("x{}", (0..n).map(|k| format!("{}{}", ["/", "-", "-", "*"][k % 4], ["y", "x", "2", "x"][k % 4])).collect::<String>()));
        }
        let accs = par_ranges(texts.len() as u64, 1, install_panic_hook, |st, en, acc| {
            for i in st..en {
                let text = &texts[i as usize];
                let SpecResult::Ok(tree) = spec::read(text, &t, LitKind::Number) else {
                    println!("MACHINERY-FAILURE property=C05 large-level text not well-formed: {text}");
                    std::process::exit(2)
                };
                judge_tree(&tree, &t, text, &PROVS, false, acc);
            }
        });
        for a in accs {
            rep.absorb(a);
        }
        rep.bounds.push(format!("large levels: {} texts with 19..64 operators of mixed priorities on one level, all provenances, order 1: complete", texts.len()));
    }
    rep.finish()
}
