//! Tree-campaign engine shared by C01, C02, C03, C08: enumerate trees x renderings, run library
//! pipelines on the symbolic data type, compare with the reference tree modulo AC.
use crate::common::*;
use crate::enumr::*;
use crate::report::*;
use crate::spec::{self, choice_vectors, SpecResult, Tree};
use crate::sym::*;
use serde_json::json;
use std::sync::Arc;

pub struct Campaign {
    pub name: String,
    pub table: Arc<Table>,
    pub alphabet: Alphabet,
    pub sizes: Vec<(usize, usize)>,
    pub max_dev: usize,
    pub max_extra: u8,
    pub blanks: Vec<u8>,
    pub pipes: Vec<Pipe>,
    /// optional filter on trees
    pub filter: Option<fn(&Tree) -> bool>,
    /// optional replacement for the deviation-bounded rendering enumeration
    pub choice_gen: Option<fn(&spec::Renderer, &Tree) -> Vec<Vec<u8>>>,
}

/// extra per-text hook: (tree, text, is_default_rendering, table, acc)
pub type Extra = dyn Fn(&Tree, &str, bool, &Table, &mut Acc) + Sync;

#[derive(Clone)]
pub struct RawViolation {
    pub pipe: Pipe,
    pub tree: Tree,
    pub text: String,
    pub choices: Vec<u8>,
    pub blank: u8,
    pub expected: String,
    pub observed: String,
}

/// compare one pipeline outcome with the reference tree; None = agrees
pub fn judge(pipe: Pipe, tree: &Tree, text: &str, t: &Table) -> Option<(String, String)> {
    let vars = tree.vars();
    let expect = tree.eval_sym(&vars, t);
    let out = run_pipe(pipe, text);
    match &out {
        Out::Val(names, v) => {
            if *names != vars {
                return Some((format!("vars={vars:?}"), format!("vars={names:?}")));
            }
            if v.contains_dflt() {
                return Some((show(&expect, t), format!("placeholder inside result: {}", show(v, t))));
            }
            if nf_ac(v, t) != nf_ac(&expect, t) {
                return Some((show(&expect, t), show(v, t)));
            }
            None
        }
        other => Some((show(&expect, t), other.short(t))),
    }
}

pub fn run_campaign(c: &Campaign, rep: &mut Report, prop: &'static str, extra: Option<&Extra>) -> Vec<RawViolation> {
    let space = TreeSpace::new(c.alphabet.clone(), &c.sizes);
    let table = c.table.clone();
    let raw = std::sync::Mutex::new(Vec::<RawViolation>::new());
    let t0 = std::time::Instant::now();
    let accs = par_ranges(
        space.total,
        256,
        || {
            install_panic_hook();
            set_table(&table);
        },
        |st, en, acc| {
            let r = renderer(&table);
            for idx in st..en {
                let tree = space.get(idx);
                if let Some(f) = c.filter {
                    if !f(&tree) {
                        continue;
                    }
                }
                acc.states += 1;
                if tree.has_op() {
                    acc.nontrivial += 1;
                }
                let vars = tree.vars();
                let expect = tree.eval_sym(&vars, &table);
                let expect_nf = nf_ac(&expect, &table);
                let cvs = if let Some(g) = c.choice_gen {
                    g(&r, &tree)
                } else if c.max_dev == 0 {
                    vec![vec![]]
                } else {
                    choice_vectors(&r, &tree, c.max_dev, c.max_extra)
                };
                for cv in &cvs {
                    let toks = r.tokens(&tree, cv);
                    for &blank in &c.blanks {
                        let text = r.join(&toks, blank);
                        acc.evaluations += 1;
                        // self-binding of the model: renderer and reference parser must agree
                        match spec::read(&text, &table, spec::LitKind::Sym) {
                            SpecResult::Ok(t2) if t2 == tree => {}
                            other => {
                                println!(
                                    "MACHINERY-FAILURE property={prop} renderer/reference-parser disagree on {:?}: tree {} read back as {:?}",
                                    text,
                                    tree.show(&table),
                                    other
                                );
                                std::process::exit(2);
                            }
                        }
                        for &pipe in &c.pipes {
                            acc.transitions += 1;
                            let out = run_pipe(pipe, &text);
                            let bad = match &out {
                                Out::Val(names, v) => {
                                    if *names != vars {
                                        Some(format!("vars={names:?}"))
                                    } else if v.contains_dflt() {
                                        Some(format!("placeholder inside result: {}", show(v, &table)))
                                    } else if nf_ac(v, &table) != expect_nf {
                                        Some(show(v, &table))
                                    } else {
                                        if *v != expect {
                                            acc.count("results_regrouped_within_AC_class", 1);
                                        }
                                        None
                                    }
                                }
                                other => Some(other.short(&table)),
                            };
                            if let Some(obs) = bad {
                                acc.count("violating_cases_raw", 1);
                                let mut g = raw.lock().unwrap();
                                if g.len() < 60000 {
                                    g.push(RawViolation {
                                        pipe,
                                        tree: tree.clone(),
                                        text: text.clone(),
                                        choices: cv.clone(),
                                        blank,
                                        expected: show(&expect, &table),
                                        observed: obs,
                                    });
                                } else {
                                    acc.dropped_violations += 1;
                                }
                            }
                        }
                        if let Some(ex) = extra {
                            ex(&tree, &text, cv.iter().all(|x| *x == 0) && blank == c.blanks[0], &table, acc);
                        }
                        if (idx + rep.seed) % 9973 == 0 && cv.iter().all(|x| *x == 0) && blank == c.blanks[0] {
                            acc.sample(json!({"campaign": c.name, "tree": tree.show(&table), "text": text, "expected": show(&expect, &table)}));
                        }
                    }
                }
            }
        },
    );
    for a in accs {
        rep.absorb(a);
    }
    rep.bounds.push(format!(
        "{}: {} trees (sizes {:?}, {} binary ops, {} unary ops, {} leaves), deviations<={}, blanks {:?}, pipes {:?}: complete in {:.1}s",
        c.name,
        space.total,
        c.sizes,
        c.alphabet.bins.len(),
        c.alphabet.uns.len(),
        c.alphabet.leaves.len(),
        c.max_dev,
        c.blanks,
        c.pipes,
        t0.elapsed().as_secs_f64()
    ));
    let mut v = raw.into_inner().unwrap();
    // deterministic order: simplest first
    v.sort_by(|a, b| (a.tree.n_nodes(), &a.text, a.pipe).cmp(&(b.tree.n_nodes(), &b.text, b.pipe)));
    v
}

/// shrink raw violations to canonical witnesses and add them to the report
pub fn shrink_and_report(raw: Vec<RawViolation>, table: &Arc<Table>, rep: &mut Report, campaign: &str) {
    if raw.is_empty() {
        return;
    }
    set_table(table);
    install_panic_hook();
    let r = renderer(table);
    let cap = 20000usize;
    if raw.len() > cap {
        rep.cap(format!("{campaign}: {} violating cases, only the {cap} simplest were shrunk; the rest count as unlisted", raw.len()));
    }
    let mut seen_sig: std::collections::BTreeMap<String, usize> = Default::default();
    for (i, v) in raw.iter().enumerate() {
        let (sig, witness_text) = if i < cap {
            let fails = |t: &Tree| {
                let text = r.render_default(t);
                judge(v.pipe, t, &text, table).is_some()
            };
            if fails(&v.tree) {
                let s = shrink_tree(&v.tree, &fails);
                (format!("{:?}:{}", v.pipe, canon_tree(&s, table)), r.render_default(&s))
            } else {
                (format!("{:?}:rendering-specific:{}:{:?}:b{}", v.pipe, canon_tree(&v.tree, table), v.choices, v.blank), v.text.clone())
            }
        } else {
            (format!("{:?}:unshrunk:{}", v.pipe, v.text), v.text.clone())
        };
        *seen_sig.entry(sig.clone()).or_insert(0) += 1;
        if seen_sig[&sig] <= 3 {
            rep.violations.push(Violation {
                signature: sig,
                what: format!("[{campaign}] pipeline {:?} on {:?}: expected {} observed {} (shrunk witness: {:?})", v.pipe, v.text, v.expected, v.observed, witness_text),
                case: json!({"engine": "tree-text", "table": table.describe(), "text": v.text, "witness": witness_text, "pipe": format!("{:?}", v.pipe)}),
            });
        } else {
            // keep the count without storing every case
            rep.violations.push(Violation { signature: sig, what: String::new(), case: json!(null) });
        }
    }
}

/// replay of a tree-text case: run the pipeline and the reference on the stored text
pub fn replay_text_case(case: &serde_json::Value) -> i32 {
    install_panic_hook();
    let table = Table::from_json(&case["table"]);
    set_table(&table);
    let mut rc = 0;
    for key in ["text", "witness"] {
        let Some(text) = case[key].as_str() else { continue };
        let pipe = match case["pipe"].as_str().unwrap_or("P") {
            "P" => Pipe::P,
            "W" => Pipe::W,
            "P2" => Pipe::P2,
            "W3" => Pipe::W3,
            "D" => Pipe::D,
            "PD" => Pipe::PD,
            "WD" => Pipe::WD,
            "DF" => Pipe::DF,
            "DFDF" => Pipe::DFDF,
            _ => Pipe::PDF,
        };
        println!("text: {text:?}  pipeline: {pipe:?}");
        match spec::read(text, &table, spec::LitKind::Sym) {
            SpecResult::Ok(tree) => {
                let vars = tree.vars();
                println!("  reference: vars={vars:?} value={}", show(&tree.eval_sym(&vars, &table), &table));
                let out = run_pipe(pipe, text);
                println!("  library  : {}", out.short(&table));
                if judge(pipe, &tree, text, &table).is_some() {
                    println!("  => MISMATCH");
                    rc = 1;
                } else {
                    println!("  => agree");
                }
            }
            other => println!("  reference does not read this text as well-formed: {other:?}"),
        }
    }
    rc
}
