//! C08 - function-call notation op(a, b) means ((a) op (b)) at any nesting.
use crate::common::*;
use crate::enumr::*;
use crate::report::*;
use crate::spec::{Renderer, Tree, ALT};
use crate::sym::*;
use crate::treecheck::*;
use std::sync::Arc;

/// alphabetic binary operators on all three levels next to symbolic and sign-like ones
pub fn call_table(pm: [i64; 3]) -> Arc<Table> {
    Table::new(call_ops(pm))
}
/// the same operators; the renderer may put *every* binary operator (symbolic and sign-like
/// ones too) into call form
pub fn call_table_all(pm: [i64; 3]) -> Arc<Table> {
    Table::new_call_all(call_ops(pm))
}
fn call_ops(pm: [i64; 3]) -> Vec<OpDesc> {
    vec![
        OpDesc::bin("mx", pm[0], false),   // 0
        OpDesc::bin("mn", pm[0], true),    // 1
        OpDesc::bin("av", pm[1], true),    // 2
        OpDesc::bin("pw", pm[2], false),   // 3
        OpDesc::bin_un("+", pm[1], true),  // 4
        OpDesc::bin_un("-", pm[1], false), // 5
        OpDesc::bin("*", pm[2], true),     // 6
        OpDesc::bin("/", pm[2], false),    // 7
        OpDesc::bin("<", pm[0], false),    // 8
        OpDesc::un("f"),                   // 9
        OpDesc::cst("C", 1000),            // 10
    ]
}

/// every subset of the alphabetic binary nodes in call form (no other deviation)
fn call_subsets(r: &Renderer, tree: &Tree) -> Vec<Vec<u8>> {
    let nodes = tree.subtrees();
    let callable: Vec<usize> = nodes.iter().enumerate().filter(|(_, n)| matches!(n, Tree::Bin(..)) && r.alt_available(n)).map(|(i, _)| i).collect();
    let mut out = Vec::new();
    for mask in 0u32..(1 << callable.len()) {
        let mut cv = vec![0u8; nodes.len()];
        for (b, &i) in callable.iter().enumerate() {
            if mask & (1 << b) != 0 {
                cv[i] = ALT;
            }
        }
        out.push(cv);
    }
    out
}
/// call subsets x one extra pair of parentheses / braces / juxtaposition anywhere
fn call_subsets_plus_one(r: &Renderer, tree: &Tree) -> Vec<Vec<u8>> {
    let base = call_subsets(r, tree);
    let nodes = tree.subtrees();
    let mut out = base.clone();
    for cv in &base {
        for i in 0..nodes.len() {
            let mut c = cv.clone();
            c[i] = (c[i] & ALT) | 1;
            out.push(c);
            if !matches!(nodes[i], Tree::Bin(..)) && r.alt_available(nodes[i]) {
                let mut c = cv.clone();
                c[i] |= ALT;
                out.push(c);
            }
        }
    }
    out
}
fn has_bin(t: &Tree) -> bool {
    match t {
        Tree::Bin(..) => true,
        Tree::Un(_, a) => has_bin(a),
        _ => false,
    }
}
fn has_alpha_bin(t: &Tree) -> bool {
    match t {
        Tree::Bin(k, a, b) => *k <= 3 || has_alpha_bin(a) || has_alpha_bin(b),
        Tree::Un(_, a) => has_alpha_bin(a),
        _ => false,
    }
}

pub fn run(tier: Tier) -> i32 {
    let mut rep = Report::new("C08", tier);
    rep.rule = "all trees of the listed sizes over a table with alphabetic binary operators on three priority levels; for every subset of the alphabetic binary nodes (campaigns all-ops-*: of all binary nodes, symbolic and sign-like operators included) the rendering with exactly those nodes in call form (plus, where stated, one further deviation), through parse, parse_wo_compile and DeepEx::parse; oracle: the reference tree (= the all-infix reading); distinct = distinct trees; non-trivial = at least one alphabetic binary node".into();
    rep.assumptions = vec!["as C01".into()];
    let pipes = vec![Pipe::P, Pipe::W, Pipe::D];
    let mk = |name: &str, table: &Arc<Table>, a: Alphabet, sizes: Vec<(usize, usize)>, gen: fn(&Renderer, &Tree) -> Vec<Vec<u8>>, blanks: Vec<u8>| Campaign {
        name: name.into(),
        table: table.clone(),
        alphabet: a,
        sizes,
        max_dev: 99,
        max_extra: 0,
        blanks,
        pipes: pipes.clone(),
        filter: Some(has_alpha_bin),
        choice_gen: Some(gen),
    };
    let al = |bins: &[u16], uns: &[u16], leaves: Vec<Tree>| Alphabet { leaves, uns: uns.to_vec(), bins: bins.to_vec() };
    let t0 = call_table([0, 1, 2]);
    let mut cs = vec![];
    cs.push(mk("n2-n3-all", &t0, al(&[0, 1, 2, 3, 4, 5, 6, 7, 8], &[5, 9], leaves_std()), vec![(2, 0), (2, 1), (2, 2), (3, 0), (3, 1)], call_subsets_plus_one, vec![0, 1]));
    if tier.thorough() {
        cs.push(mk("n3u2", &t0, al(&[0, 1, 2, 3, 5, 6], &[5, 9], leaves_std()), vec![(3, 2)], call_subsets, vec![0]));
        cs.push(mk("n4", &t0, al(&[0, 1, 2, 3, 4, 5, 6, 7, 8], &[5, 9], leaves_std()), vec![(4, 0)], call_subsets_plus_one, vec![0]));
        cs.push(mk("n4u1", &t0, al(&[0, 1, 2, 3, 5, 6], &[5, 9], vec![Tree::lit(1), Tree::var("x"), Tree::var("y")]), vec![(4, 1)], call_subsets, vec![0]));
        cs.push(mk("n5", &t0, al(&[0, 1, 3, 5, 6], &[], vec![Tree::lit(1), Tree::var("x")]), vec![(5, 0)], call_subsets, vec![0]));
        cs.push(mk("n6-alpha-only", &t0, al(&[0, 2, 3], &[], vec![Tree::lit(1), Tree::var("x")]), vec![(6, 0)], call_subsets, vec![0]));
        let t1 = call_table([1, 1, 1]);
        cs.push(mk("equal-prios-n4", &t1, al(&[0, 1, 2, 3, 5, 6], &[9], vec![Tree::lit(1), Tree::var("x"), Tree::var("y")]), vec![(3, 0), (3, 1), (4, 0)], call_subsets, vec![0]));
        let t2 = call_table([97, 98, 99]);
        cs.push(mk("high-prios-n4", &t2, al(&[0, 1, 2, 3, 5, 6], &[9], vec![Tree::lit(1), Tree::var("x"), Tree::var("y")]), vec![(3, 1), (4, 0)], call_subsets, vec![0]));
    } else {
        cs.push(mk("n4-small", &t0, al(&[0, 1, 3, 5, 6], &[], vec![Tree::lit(1), Tree::var("x"), Tree::var("y")]), vec![(4, 0)], call_subsets, vec![0]));
        cs.push(mk("n5-alpha-only", &t0, al(&[0, 3], &[], vec![Tree::lit(1), Tree::var("x")]), vec![(5, 0)], call_subsets, vec![0]));
        let t1 = call_table([1, 1, 1]);
        cs.push(mk("equal-prios-n3", &t1, al(&[0, 1, 2, 3, 5, 6], &[9], vec![Tree::lit(1), Tree::var("x"), Tree::var("y")]), vec![(3, 0), (3, 1)], call_subsets, vec![0]));
    }
    // variable names that contain parentheses (anything in curly braces is one variable)
    cs.push(mk("paren-names", &t0, al(&[0, 3, 5, 6], &[5, 9], vec![Tree::var("x("), Tree::var(")y"), Tree::var("a,b"), Tree::lit(1)]), if tier.thorough() { vec![(2, 0), (2, 1), (3, 0), (3, 1), (4, 0), (4, 1)] } else { vec![(2, 0), (2, 1), (3, 0), (3, 1), (4, 0)] }, call_subsets_plus_one, vec![0]));
    // every binary operator in call form (symbolic and sign-like operators too)
    let ta = call_table_all([0, 1, 2]);
    let mut all = |name: &str, table: &Arc<Table>, a: Alphabet, sizes: Vec<(usize, usize)>, gen: fn(&Renderer, &Tree) -> Vec<Vec<u8>>, blanks: Vec<u8>| {
        let mut c = mk(name, table, a, sizes, gen, blanks);
        c.filter = Some(has_bin);
        cs.push(c);
    };
    all("all-ops-n2-n3", &ta, al(&[0, 1, 2, 3, 4, 5, 6, 7, 8], &[5, 9], leaves_std()), vec![(2, 0), (2, 1), (2, 2), (3, 0), (3, 1)], call_subsets_plus_one, vec![0, 1]);
    if tier.thorough() {
        all("all-ops-n4", &ta, al(&[0, 2, 4, 5, 6, 7, 8], &[5, 9], vec![Tree::lit(1), Tree::var("x"), Tree::var("y")]), vec![(3, 2), (4, 0), (4, 1)], call_subsets, vec![0]);
        all("all-ops-n5", &ta, al(&[3, 4, 5, 6], &[5], vec![Tree::lit(1), Tree::var("x")]), vec![(5, 0)], call_subsets, vec![0]);
        let ta1 = call_table_all([1, 1, 1]);
        all("all-ops-equal-prios-n4", &ta1, al(&[0, 4, 5, 6, 7], &[5, 9], vec![Tree::lit(1), Tree::var("x"), Tree::var("y")]), vec![(3, 0), (3, 1), (4, 0)], call_subsets, vec![0]);
    } else {
        all("all-ops-n4-small", &ta, al(&[0, 4, 5, 6], &[5], vec![Tree::lit(1), Tree::var("x"), Tree::var("y")]), vec![(4, 0)], call_subsets, vec![0]);
    }
    deep_call_families(tier, &mut rep);
    for c in cs {
        let raw = run_campaign(&c, &mut rep, "C08", None);
        // count call-form texts for non-vacuity
        shrink_and_report_calls(raw, &c.table, &mut rep, &c.name);
    }
    rep.finish()
}

/// like treecheck::shrink_and_report, but the witness keeps its call-form choices: a failure
/// that only exists in call form cannot be shrunk through the default (infix) rendering
fn shrink_and_report_calls(raw: Vec<RawViolation>, table: &Arc<Table>, rep: &mut Report, campaign: &str) {
    if raw.is_empty() {
        return;
    }
    set_table(table);
    let r = renderer(table);
    let mut n = 0;
    for v in raw.iter() {
        // shrink with "all alphabetic binary nodes in call form"
        let all_calls = |t: &Tree| -> String {
            let nodes = t.subtrees();
            let cv: Vec<u8> = nodes.iter().map(|nd| if matches!(nd, Tree::Bin(..)) && r.alt_available(nd) { ALT } else { 0 }).collect();
            r.render(t, &cv, 0)
        };
        let fails = |t: &Tree| judge(v.pipe, t, &all_calls(t), table).is_some();
        let (sig, witness) = if n < 3000 && fails(&v.tree) {
            let s = shrink_tree(&v.tree, &fails);
            (format!("{:?}:calls:{}", v.pipe, canon_tree(&s, table)), all_calls(&s))
        } else {
            (format!("{:?}:call-subset-specific:{}:{:?}", v.pipe, canon_tree(&v.tree, table), v.choices), v.text.clone())
        };
        n += 1;
        rep.violations.push(Violation {
            signature: sig,
            what: format!("[{campaign}] pipeline {:?} on {:?}: expected {} observed {} (witness {:?})", v.pipe, v.text, v.expected, v.observed, witness),
            case: serde_json::json!({"engine": "tree-text", "table": table.describe(), "text": v.text, "witness": witness, "pipe": format!("{:?}", v.pipe)}),
        });
    }
}

/// "to any depth": deterministic families with calls nested up to 100 levels (in the first and in
/// the second argument) and up to 200 redundant parentheses inside either argument / around an
/// inner call; oracle: the reference parser's tree
fn deep_call_families(tier: Tier, rep: &mut Report) {
    let table = call_table([0, 1, 2]);
    let max_parens = if tier.thorough() { 200 } else { 132 };
    let max_nest = if tier.thorough() { 100 } else { 70 };
    let mut texts: Vec<(String, String)> = Vec::new();
    let par = |n: usize, inner: &str| format!("{}{inner}{}", "(".repeat(n), ")".repeat(n));
    for n in 0..=max_parens {
        if !tier.thorough() && n > 8 && !(60..=68).contains(&n) && !(124..=132).contains(&n) && n % 16 != 0 {
            continue;
        }
        texts.push((format!("parens-in-2nd-arg-{n}"), format!("mx(y, {} + 1) * 2", par(n, "x"))));
        // (the call operator binds tighter than the operator that follows the group)
        texts.push((format!("parens-in-2nd-arg-of-tight-call-{n}"), format!("pw(y, {} + 1) - 2", par(n, "x"))));
        texts.push((format!("parens-in-1st-arg-{n}"), format!("pw({} - 1, y) / 2", par(n, "x"))));
        texts.push((format!("parens-around-inner-call-in-2nd-arg-{n}"), format!("av(y, {})", par(n, "mn(x,2)"))));
        texts.push((format!("parens-around-inner-call-in-1st-arg-{n}"), format!("av({}, y) - x", par(n, "mx(x,2)"))));
        texts.push((format!("parens-around-whole-call-{n}"), format!("1 + {}", par(n, "mx(x, y)"))));
        texts.push((format!("call-under-unary-with-parens-{n}"), format!("f({}) mn -{}", par(n, "mx(x, 1)"), par(n, "pw(2, y)"))));
    }
    for d in 1..=max_nest {
        texts.push((format!("nested-in-2nd-arg-{d}"), format!("{}x{}", "mx(1,".repeat(d), ")".repeat(d))));
        texts.push((format!("nested-in-1st-arg-{d}"), format!("{}x{}", "mx(".repeat(d), ",1)".repeat(d))));
        texts.push((format!("nested-alternating-{d}"), {
            let mut s = "x".to_string();
            for i in 0..d {
                s = if i % 2 == 0 { format!("av(y, {s})") } else { format!("pw({s}, 2)") };
            }
            s
        }));
        texts.push((format!("nested-both-args-{d}"), {
            // comb: mx(mn(1,2), mx(mn(1,2), ... x))
            let mut s = "x".to_string();
            for _ in 0..d.min(40) {
                s = format!("mx(mn(1,y), {s})");
            }
            s
        }));
    }
    // a call far below the top level: the parenthesis depth of the call itself passes 127 / 255 /
    // 511 (/ 1023), its second argument holds a group followed by further tokens
    let depths: Vec<usize> = if tier.thorough() { (120..=136).chain(248..=264).chain(505..=520).chain(1020..=1030).collect() } else { vec![126, 127, 128, 129, 253, 254, 255, 256, 257, 258, 511, 512, 513] };
    for &n in &depths {
        texts.push((format!("call-below-enclosing-parens-{n}"), format!("{} * 2", par(n, "pw(y, (x) + 1)"))));
        texts.push((format!("nested-calls-below-enclosing-parens-{n}"), format!("1 - {}", par(n, "av(pw(3, (x) - y) + 1, f(y) * 2)"))));
        texts.push((format!("call-below-unary-functions-{n}"), format!("{}pw((y) - 1, (x) / 2){}", "f(".repeat(n), ")".repeat(n))));
    }
    let pipes = [Pipe::P, Pipe::W, Pipe::D];
    let accs = par_ranges(
        texts.len() as u64,
        1,
        || {
            install_panic_hook();
            set_table(&table);
        },
        |st, en, acc| {
            for i in st..en {
                let (name, text) = &texts[i as usize];
                let tree = match crate::spec::read(text, &table, crate::spec::LitKind::Sym) {
                    crate::spec::SpecResult::Ok(t) => t,
                    o => {
                        println!("MACHINERY-FAILURE property=C08 family text {name} not well-formed for the reference: {o:?}");
                        std::process::exit(2);
                    }
                };
                acc.states += 1;
                acc.nontrivial += 1;
                acc.evaluations += 1;
                for &p in &pipes {
                    acc.transitions += 1;
                    if let Some((e, o)) = judge(p, &tree, text, &table) {
                        let cut = |s: &str| s.chars().take(200).collect::<String>();
                        let kind: String = name.trim_end_matches(|c: char| c.is_ascii_digit()).to_string();
                        acc.violate(Violation {
                            signature: format!("{p:?}:deep-family:{kind}"),
                            what: format!("family {name} pipeline {p:?} on {:?}: expected {} observed {}", cut(text), cut(&e), cut(&o)),
                            case: serde_json::json!({"engine": "tree-text", "table": table.describe(), "text": text, "pipe": format!("{p:?}")}),
                        });
                    }
                }
                if i % 101 == 0 {
                    acc.sample(serde_json::json!({"family": name, "text_prefix": text.chars().take(70).collect::<String>()}));
                }
            }
        },
    );
    for a in accs {
        rep.absorb(a);
    }
    rep.bounds.push(format!("deep call families: {} texts (calls nested up to {max_nest} levels in either argument; up to {max_parens} redundant parentheses inside arguments / around calls; calls below {} .. {} enclosing parentheses / unary functions), pipes {pipes:?}: complete", texts.len(), depths[0], depths[depths.len() - 1]));
}
