//! E2 - explicit-state exploration of operation histories on real objects (stateright BFS).
//! A state is the history that produced it; `next_state` replays the history on fresh real
//! objects, applies one more real operation and runs the reference model in lock-step.  The
//! dedup key is the full structural dump of the real object plus the depth.
use crate::report::*;
use serde_json::Value;
use stateright::{Checker, Model};
use std::collections::BTreeMap;
use std::fmt::Debug;
use std::hash::{Hash, Hasher};
use std::sync::{Arc, Mutex};

pub struct Outcome {
    /// structural dump of the real object(s) reached by the history
    pub key: String,
    /// (signature, description) of every oracle failure observed in this state
    pub bad: Vec<(String, String)>,
    /// no further operations from here (error states)
    pub terminal: bool,
    /// real operations executed and compared while replaying
    pub steps: u64,
}

pub trait Hist: Clone + Send + Sync + 'static {
    type Act: Clone + Debug + Hash + Eq + Send + Sync + 'static;
    fn roots(&self) -> Vec<Vec<Self::Act>>;
    fn enabled(&self, hist: &[Self::Act], out: &mut Vec<Self::Act>);
    fn run(&self, hist: &[Self::Act]) -> Outcome;
    fn max_len(&self) -> usize;
    fn describe(&self, hist: &[Self::Act]) -> Value;
}

#[derive(Clone, Debug)]
pub struct HState<A> {
    pub hist: Vec<A>,
    pub key: u64,
    pub terminal: bool,
}
impl<A> PartialEq for HState<A> {
    fn eq(&self, o: &Self) -> bool {
        self.key == o.key && self.hist.len() == o.hist.len()
    }
}
impl<A> Eq for HState<A> {}
impl<A> Hash for HState<A> {
    fn hash<S: Hasher>(&self, s: &mut S) {
        self.key.hash(s);
        self.hist.len().hash(s);
    }
}

#[derive(Default)]
pub struct Shared {
    pub violations: BTreeMap<String, (String, Value, u64)>,
    pub steps: u64,
    pub samples: Vec<Value>,
    pub nontrivial: u64,
}

#[derive(Clone)]
struct M<H: Hist> {
    h: H,
    shared: Arc<Mutex<Shared>>,
    /// the roots this checker instance starts from (the root set is partitioned over instances)
    roots: Arc<Vec<Vec<H::Act>>>,
}

fn hkey(s: &str) -> u64 {
    let mut h = std::collections::hash_map::DefaultHasher::new();
    s.hash(&mut h);
    h.finish()
}

impl<H: Hist> M<H> {
    fn mk(&self, hist: Vec<H::Act>) -> HState<H::Act> {
        let r = crate::common::guard(|| self.h.run(&hist));
        let out = match r {
            Ok(o) => o,
            Err(p) => Outcome { key: format!("PANIC {p} {}", self.h.describe(&hist)), bad: vec![(format!("panic:{}", crate::common::panic_site(&p)), format!("history {} panicked: {p}", self.h.describe(&hist)))], terminal: true, steps: 0 },
        };
        let mut g = self.shared.lock().unwrap();
        g.steps += out.steps;
        if hist.len() > 1 {
            g.nontrivial += 1;
        }
        if g.samples.len() < 12 && (hkey(&out.key) % 97 == 0) {
            g.samples.push(self.h.describe(&hist));
        }
        for (sig, what) in out.bad {
            let e = g.violations.entry(sig).or_insert_with(|| (what, self.h.describe(&hist), 0));
            e.2 += 1;
        }
        HState { key: hkey(&out.key), hist, terminal: out.terminal }
    }
}

impl<H: Hist> Model for M<H> {
    type State = HState<H::Act>;
    type Action = H::Act;
    fn init_states(&self) -> Vec<Self::State> {
        crate::common::install_panic_hook();
        self.roots.iter().cloned().map(|r| self.mk(r)).collect()
    }
    fn actions(&self, state: &Self::State, actions: &mut Vec<Self::Action>) {
        if state.terminal || state.hist.len() >= self.h.max_len() {
            return;
        }
        self.h.enabled(&state.hist, actions);
    }
    fn next_state(&self, last: &Self::State, action: Self::Action) -> Option<Self::State> {
        let mut hist = last.hist.clone();
        hist.push(action);
        Some(self.mk(hist))
    }
    fn properties(&self) -> Vec<stateright::Property<Self>> {
        // oracle failures are collected in `shared` so that the whole space is explored; this
        // never-violated invariant keeps the checker from stopping early
        vec![stateright::Property::always("explore-all", |_, _| true)]
    }
}

pub struct Stats {
    pub unique: usize,
    pub total: usize,
    pub max_depth: usize,
}

/// replay mode: the description of the history to re-run (set by `verif replay`)
pub static REPLAY_TARGET: std::sync::OnceLock<Value> = std::sync::OnceLock::new();
pub fn replaying() -> bool {
    REPLAY_TARGET.get().is_some()
}

/// `verif replay` of a recorded history: the owning check is run with the target set; every
/// model it builds is searched (without executing anything) for the history with the recorded
/// description, which is then run once on fresh real objects, outside the explorer
pub fn replay_by_search(prop: &str, case: &Value) -> i32 {
    let _ = REPLAY_TARGET.set(case["history"].clone());
    println!("searching the models of {prop} for the recorded history ...");
    let run = |tier: Tier| match prop {
        "C03" => crate::c03::run(tier),
        "C04" => crate::c04::run(tier),
        "C06" => crate::c06::run(tier),
        "C09" => crate::c09::run(tier),
        "C10" => crate::c10::run(tier),
        "C11" => crate::c11::run(tier),
        "C12" => crate::c12::run(tier),
        "C20" => crate::c20::run(tier),
        _ => 2,
    };
    // (a match ends the process from inside `explore`)
    if run(Tier::Quick) == 2 {
        run(Tier::Thorough);
    }
    println!("history not found in the models of {prop}");
    2
}

fn search<H: Hist>(h: &H, hist: &mut Vec<H::Act>, target: &Value) -> bool {
    let d = h.describe(hist);
    if &d == target {
        return true;
    }
    // descriptions that list one entry per step allow pruning by prefix
    if let (Some(da), Some(ta)) = (d.as_array(), target.as_array()) {
        if da.len() == hist.len() && (da.len() >= ta.len() || da[..] != ta[..da.len()]) {
            return false;
        }
    }
    if hist.len() >= h.max_len() {
        return false;
    }
    let mut acts = Vec::new();
    h.enabled(hist, &mut acts);
    for a in acts {
        hist.push(a);
        if search(h, hist, target) {
            return true;
        }
        hist.pop();
    }
    false
}

fn replay_in<H: Hist>(h: &H, target: &Value, name: &str) {
    for root in h.roots() {
        let mut hist = root;
        if search(h, &mut hist, target) {
            println!("found in model {name:?}: {hist:?}");
            // second attempt (see below): the one-step histories of the model run first
            let roots_first = std::env::var_os("VERIF_REPLAY_ROOTS_FIRST").is_some();
            if roots_first {
                println!("  (after all one-step histories of the model in the same process)");
                for r in h.roots() {
                    let _ = crate::common::guard(|| h.run(&r));
                }
            }
            let code = match crate::common::guard(|| h.run(&hist)) {
                Ok(o) if o.bad.is_empty() => {
                    println!("  => every judged step of this history agrees with the reference");
                    if roots_first {
                        0
                    } else {
                        // state kept between calls (what the sequential histories of C20 look for)
                        // can depend on histories explored earlier in the same process
                        let exe = std::env::current_exe().expect("exe");
                        let st = std::process::Command::new(exe).args(std::env::args().skip(1)).env("VERIF_REPLAY_ROOTS_FIRST", "1").status().expect("spawn");
                        st.code().unwrap_or(2)
                    }
                }
                Ok(o) => {
                    for (sig, what) in &o.bad {
                        println!("  BAD {sig}: {what}");
                    }
                    1
                }
                Err(p) => {
                    println!("  BAD panic: {p}");
                    1
                }
            };
            std::process::exit(code);
        }
    }
}

/// explore to the history-length bound (or to closure if the graph is finite below it)
pub fn explore<H: Hist>(h: H, rep: &mut Report, engine_tag: &str, name: &str) -> Stats {
    if let Some(target) = REPLAY_TARGET.get() {
        replay_in(&h, target, name);
        return Stats { unique: 0, total: 0, max_depth: 0 };
    }
    let shared = Arc::new(Mutex::new(Shared::default()));
    let t0 = std::time::Instant::now();
    // stateright's BFS hands out work in blocks of 1500 states, which serialises models whose
    // transitions are expensive; the root set is therefore partitioned and one single-threaded
    // checker per part runs on its own OS thread (histories from different roots never merge)
    let all_roots = h.roots();
    let nt = crate::enumr::n_threads().min(all_roots.len().max(1));
    let mut parts: Vec<Vec<Vec<H::Act>>> = vec![Vec::new(); nt];
    for (i, r) in all_roots.into_iter().enumerate() {
        parts[i % nt].push(r);
    }
    let results: Vec<Stats> = std::thread::scope(|sc| {
        let hs: Vec<_> = parts
            .into_iter()
            .map(|part| {
                let m = M { h: h.clone(), shared: shared.clone(), roots: Arc::new(part) };
                std::thread::Builder::new()
                    .stack_size(256 << 20)
                    .spawn_scoped(sc, move || {
                        let checker = m.checker().threads(1).spawn_bfs().join();
                        Stats { unique: checker.unique_state_count(), total: checker.state_count(), max_depth: checker.max_depth() }
                    })
                    .unwrap()
            })
            .collect();
        hs.into_iter().map(|h| h.join().expect("checker thread")).collect()
    });
    let st = Stats { unique: results.iter().map(|r| r.unique).sum(), total: results.iter().map(|r| r.total).sum(), max_depth: results.iter().map(|r| r.max_depth).max().unwrap_or(0) };
    let g = shared.lock().unwrap();
    rep.states += st.unique as u64;
    rep.transitions += g.steps.max(st.total as u64);
    rep.evaluations += st.total as u64;
    rep.nontrivial += g.nontrivial.min(st.unique as u64);
    for s in &g.samples {
        rep.sample(s.clone());
    }
    for (sig, (what, hist, n)) in &g.violations {
        for _ in 0..(*n).min(3) {
            rep.violations.push(Violation { signature: sig.clone(), what: what.clone(), case: serde_json::json!({"engine": engine_tag, "history": hist}) });
        }
    }
    rep.bounds.push(format!(
        "{name}: stateright BFS over histories of length <= {}: {} unique states (structural dump + depth), {} generated, max depth {}: complete in {:.1}s",
        h.max_len(),
        st.unique,
        st.total,
        st.max_depth,
        t0.elapsed().as_secs_f64()
    ));
    st
}
