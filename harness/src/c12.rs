//! C12 - printed expressions parse back to the same expression.
use crate::common::*;
use crate::hist::*;
use crate::report::*;
use crate::sym::*;
use exmex::prelude::*;
use exmex::{DeepEx, DiffDataType, Differentiate, ExResult, Express, MakeOperators, MatchLiteral};
use serde_json::{json, Value};
use std::fmt::Debug;
use std::sync::Arc;

impl From<u8> for Sym {
    fn from(v: u8) -> Self {
        Sym::Lit(v as u32)
    }
}
impl From<f32> for Sym {
    fn from(v: f32) -> Self {
        Sym::Lit(v as u32)
    }
}

pub trait Dom: DiffDataType + Send + Sync + 'static
where
    <Self as std::str::FromStr>::Err: Debug,
{
    type OF: MakeOperators<Self> + Debug + Send + Sync + 'static + PartialEq;
    type LM: MatchLiteral + Debug + Send + Sync + 'static + PartialEq;
    const NAME: &'static str;
    fn setup();
    fn points(n: usize) -> Vec<Vec<Self>>;
    fn same(a: &Self, b: &Self) -> bool;
    /// false if the printed text contains a literal the statement excludes (exponent / non-finite forms)
    fn printable(text: &str) -> bool;
}

fn t12() -> Arc<Table> {
    // constants deliberately sit before and between the operators (operator look-ups by name
    // must not depend on the constants being listed last)
    Table::new(vec![
        OpDesc::cst("C", 77),
        OpDesc::bin_un("+", 0, true),
        OpDesc::bin_un("-", 1, false),
        OpDesc::cst("K", 78),
        OpDesc::bin("*", 2, true),
        OpDesc::bin("/", 3, false),
        OpDesc::bin("^", 4, false),
        OpDesc::bin("mx", 0, false),
        OpDesc::un("sin"),
        OpDesc::un("cos"),
        OpDesc::un("ln"),
        OpDesc::un("sqrt"),
        OpDesc::un("f"),
    ])
}

impl Dom for Sym {
    type OF = Ops0;
    type LM = SymMatcher;
    const NAME: &'static str = "symbolic";
    fn setup() {
        set_table(&t12());
    }
    fn points(n: usize) -> Vec<Vec<Sym>> {
        vec![var_syms(n)]
    }
    fn same(a: &Sym, b: &Sym) -> bool {
        let t = t12();
        !a.contains_dflt() && nf_ac(a, &t) == nf_ac(b, &t)
    }
    fn printable(_: &str) -> bool {
        true
    }
}
impl Dom for f64 {
    type OF = exmex::FloatOpsFactory<f64>;
    type LM = exmex::NumberMatcher;
    const NAME: &'static str = "f64";
    fn setup() {}
    fn points(n: usize) -> Vec<Vec<f64>> {
        vec![(0..n).map(|i| 0.37 + 0.5 * i as f64).collect(), (0..n).map(|i| 1.9 - 0.3 * i as f64).collect(), (0..n).map(|i| 2.4 + 0.7 * i as f64).collect()]
    }
    fn same(a: &f64, b: &f64) -> bool {
        (a.is_nan() && b.is_nan()) || a == b || (a - b).abs() <= 1e-11 * a.abs().max(b.abs())
    }
    fn printable(text: &str) -> bool {
        // outside braces: no exponent form, no inf / NaN
        let mut depth = 0;
        let mut prev_digit = false;
        let bytes: Vec<char> = text.chars().collect();
        for (i, c) in bytes.iter().enumerate() {
            if *c == '{' {
                depth += 1;
            } else if *c == '}' {
                depth -= 1;
            } else if depth == 0 {
                if *c == 'e' && prev_digit && bytes.get(i + 1).map(|n| n.is_ascii_digit() || *n == '-').unwrap_or(false) {
                    return false;
                }
                if text[..].contains("inf") || text.contains("NaN") {
                    return false;
                }
            }
            prev_digit = c.is_ascii_digit() || *c == '.';
        }
        true
    }
}

#[derive(Clone, Debug, PartialEq)]
pub enum Ex<T: Dom>
where
    <T as std::str::FromStr>::Err: Debug,
{
    F(FlatEx<T, T::OF, T::LM>),
    D(DeepEx<'static, T, T::OF, T::LM>),
}
impl<T: Dom> Ex<T>
where
    <T as std::str::FromStr>::Err: Debug,
{
    fn parse(text: &'static str, deep: bool) -> ExResult<Self> {
        Ok(if deep { Ex::D(DeepEx::parse(text)?) } else { Ex::F(FlatEx::parse(text)?) })
    }
    fn is_deep(&self) -> bool {
        matches!(self, Ex::D(_))
    }
    fn text(&self) -> String {
        match self {
            Ex::F(e) => e.unparse().to_string(),
            Ex::D(e) => e.unparse().to_string(),
        }
    }
    fn names(&self) -> Vec<String> {
        match self {
            Ex::F(e) => e.var_names().to_vec(),
            Ex::D(e) => e.var_names().to_vec(),
        }
    }
    fn eval(&self, v: &[T]) -> ExResult<T> {
        match self {
            Ex::F(e) => e.eval(v),
            Ex::D(e) => e.eval(v),
        }
    }
    fn dump(&self) -> String {
        match self {
            Ex::F(e) => format!("F{e:?}"),
            Ex::D(e) => format!("D{e:?}"),
        }
    }
}

#[derive(Clone, Debug, Hash, PartialEq, Eq)]
pub enum Act {
    Init(usize, bool),
    Convert,
    Un(usize),
    Bin(usize, usize),
    Subs(usize),
    Partial(usize),
}

#[derive(Clone)]
pub struct RoundTrip<T: Dom>
where
    <T as std::str::FromStr>::Err: Debug,
{
    pub texts: Arc<Vec<&'static str>>,
    pub pool: Arc<Vec<&'static str>>,
    pub uns: Vec<&'static str>,
    pub bins: Vec<&'static str>,
    pub max_len: usize,
    pub _t: std::marker::PhantomData<T>,
}

/// the invariants of one state; returns the list of failures
fn check_state<T: Dom>(cur: &Ex<T>, source: Option<&str>, after_partial: bool, steps: &mut u64) -> Vec<(String, String)>
where
    <T as std::str::FromStr>::Err: Debug,
{
    let mut bad = Vec::new();
    let form = if cur.is_deep() { "deep" } else { "flat" };
    let text = cur.text();
    if let Some(src) = source {
        if !cur.is_deep() && text != src {
            bad.push((format!("{}:parsed-flat-prints-other-text", T::NAME), format!("FlatEx::parse({src:?}) prints {text:?}")));
        }
    }
    if !T::printable(&text) {
        bad.push(("SKIP".into(), String::new()));
        return bad;
    }
    let names = cur.names();
    let pts = T::points(names.len());
    let vals: Vec<ExResult<T>> = pts.iter().map(|p| cur.eval(p)).collect();
    // closure of unparse -> parse
    let mut t_cur = text.clone();
    for round in 0..4 {
        *steps += 1;
        let leaked: &'static str = intern(&t_cur);
        let re = match Ex::<T>::parse(leaked, cur.is_deep()) {
            Ok(e) => e,
            Err(e) => {
                bad.push((format!("{}:{form}:printed-text-does-not-parse", T::NAME), format!("the printed text {t_cur:?} (round {round}) is rejected: {}", e.msg())));
                return bad;
            }
        };
        if re.names() != names {
            let lost_only = re.names().iter().all(|n| names.contains(n));
            if after_partial && lost_only {
                // a derivative keeps the variable list of its antiderivative (C09), but a variable
                // that no longer occurs cannot be printed
                bad.push((format!("{}:{form}:derivative-loses-variables-that-no-longer-occur", T::NAME), format!("the derivative prints as {t_cur:?}, which parses back with variables {:?} instead of {names:?}", re.names())));
            } else {
                bad.push((format!("{}:{form}:variables-change", T::NAME), format!("{t_cur:?} parses back with variables {:?} instead of {names:?}", re.names())));
            }
            return bad;
        }
        for (p, v) in pts.iter().zip(&vals) {
            match (v, re.eval(p)) {
                (Ok(a), Ok(b)) => {
                    if !T::same(a, &b) {
                        bad.push((format!("{}:{form}:value-changes", T::NAME), format!("{t_cur:?} parses back to another function: {b:?} instead of {a:?} at {p:?} (printed from {text:?})")));
                        return bad;
                    }
                }
                (Err(_), Err(_)) => {}
                (a, b) => {
                    bad.push((format!("{}:{form}:eval-differs", T::NAME), format!("{t_cur:?}: {:?} vs {:?}", a.as_ref().err().map(|e| e.msg().to_string()), b.as_ref().err().map(|e| e.msg().to_string()))));
                    return bad;
                }
            }
        }
        let t_next = re.text();
        if t_next == t_cur {
            break;
        }
        if !T::printable(&t_next) {
            break;
        }
        t_cur = t_next;
    }
    // serde = unparse + parse
    if let Ex::F(f) = cur {
        *steps += 1;
        match serde_json::to_string(f) {
            Ok(js) => {
                // three ways a deserializer hands over the string: borrowed from the input
                // (from_str), transient (from_reader), owned (from_value)
                type Fx<T> = FlatEx<T, <T as Dom>::OF, <T as Dom>::LM>;
                let routes: [(&str, Result<Fx<T>, String>); 3] = [
                    ("from_str", serde_json::from_str::<Fx<T>>(&js).map_err(|e| e.to_string())),
                    ("from_reader", serde_json::from_reader::<_, Fx<T>>(js.as_bytes()).map_err(|e| e.to_string())),
                    ("from_value", serde_json::to_value(f).map_err(|e| e.to_string()).and_then(|v| serde_json::from_value::<Fx<T>>(v).map_err(|e| e.to_string()))),
                ];
                for (route, r) in routes {
                    *steps += 1;
                    match r {
                        Ok(back) => {
                            if back.var_names() != names.as_slice() || back.unparse() != text {
                                bad.push((format!("{}:serde-changes-expression", T::NAME), format!("serde round trip ({route}) of {text:?} gives {:?} with variables {:?}", back.unparse(), back.var_names())));
                            } else {
                                for (p, v) in pts.iter().zip(&vals) {
                                    if let (Ok(a), Ok(b)) = (v, back.eval(p)) {
                                        if !T::same(a, &b) {
                                            bad.push((format!("{}:serde-changes-value", T::NAME), format!("serde round trip ({route}) of {text:?} evaluates to {b:?} instead of {a:?}")));
                                            break;
                                        }
                                    }
                                }
                            }
                        }
                        Err(e) => bad.push((format!("{}:serde-deserialize-failed:{route}", T::NAME), format!("{text:?} serialises to {js} which does not deserialise ({route}): {e}"))),
                    }
                }
            }
            Err(e) => bad.push((format!("{}:serde-serialize-failed", T::NAME), format!("{text:?}: {e}"))),
        }
    }
    bad
}

impl<T: Dom> Hist for RoundTrip<T>
where
    <T as std::str::FromStr>::Err: Debug,
{
    type Act = Act;
    fn roots(&self) -> Vec<Vec<Act>> {
        (0..self.texts.len()).flat_map(|i| [vec![Act::Init(i, false)], vec![Act::Init(i, true)]]).collect()
    }
    fn enabled(&self, _hist: &[Act], out: &mut Vec<Act>) {
        out.push(Act::Convert);
        for k in 0..self.uns.len() {
            out.push(Act::Un(k));
        }
        for k in 0..self.bins.len() {
            for j in 0..self.pool.len() {
                out.push(Act::Bin(k, j));
            }
        }
        for j in 0..self.pool.len() {
            out.push(Act::Subs(j));
        }
        out.push(Act::Partial(0));
        out.push(Act::Partial(1));
    }
    fn max_len(&self) -> usize {
        self.max_len
    }
    fn describe(&self, hist: &[Act]) -> Value {
        json!(hist
            .iter()
            .map(|a| match a {
                Act::Init(i, d) => format!("{}::<{}>::parse({:?})", if *d { "DeepEx" } else { "FlatEx" }, T::NAME, self.texts[*i]),
                Act::Convert => "convert to the other form".into(),
                Act::Un(k) => format!("operate_unary({:?})", self.uns[*k]),
                Act::Bin(k, j) => format!("operate_binary({:?}, {:?})", self.pool[*j], self.bins[*k]),
                Act::Subs(j) => format!("subs(first variable := {:?})", self.pool[*j]),
                Act::Partial(i) => format!("partial({i})"),
            })
            .collect::<Vec<_>>())
    }
    fn run(&self, hist: &[Act]) -> Outcome {
        T::setup();
        let mut out = Outcome { key: String::new(), bad: vec![], terminal: false, steps: 0 };
        let Act::Init(i0, deep) = hist[0] else { unreachable!() };
        let mut cur = match Ex::<T>::parse(self.texts[i0], deep) {
            Ok(e) => e,
            Err(e) => {
                out.bad.push((format!("{}:base-rejected", T::NAME), format!("{:?}: {}", self.texts[i0], e.msg())));
                out.terminal = true;
                return out;
            }
        };
        for a in &hist[1..] {
            out.steps += 1;
            let r: ExResult<Ex<T>> = match (a, cur.clone()) {
                (Act::Convert, Ex::F(f)) => f.to_deepex().map(Ex::D),
                (Act::Convert, Ex::D(d)) => FlatEx::from_deepex(d).map(Ex::F),
                (Act::Un(k), Ex::F(f)) => f.operate_unary(self.uns[*k]).map(Ex::F),
                (Act::Un(k), Ex::D(d)) => d.operate_unary(self.uns[*k]).map(Ex::D),
                (Act::Bin(k, j), Ex::F(f)) => FlatEx::parse(self.pool[*j]).and_then(|o| f.operate_binary(o, self.bins[*k])).map(Ex::F),
                (Act::Bin(k, j), Ex::D(d)) => DeepEx::parse(self.pool[*j]).and_then(|o| d.operate_binary(o, self.bins[*k])).map(Ex::D),
                (Act::Subs(j), Ex::F(f)) => {
                    let first = f.var_names().first().cloned();
                    let pool = self.pool[*j];
                    f.subs(&mut |v: &str| if Some(v.to_string()) == first { FlatEx::parse(pool).ok() } else { None }).map(Ex::F)
                }
                (Act::Subs(j), Ex::D(d)) => {
                    let first = d.var_names().first().cloned();
                    let pool = self.pool[*j];
                    d.subs(&mut |v: &str| if Some(v.to_string()) == first { DeepEx::parse(pool).ok() } else { None }).map(Ex::D)
                }
                (Act::Partial(i), Ex::F(f)) => f.partial(*i).map(Ex::F),
                (Act::Partial(i), Ex::D(d)) => d.partial(*i).map(Ex::D),
                (Act::Init(..), _) => unreachable!(),
            };
            match r {
                Ok(e) => cur = e,
                Err(e) => {
                    // refused operations (index out of range, no derivative rule) end the history
                    out.terminal = true;
                    out.key = format!("refused:{}", e.msg().chars().take(40).collect::<String>());
                    return out;
                }
            }
        }
        let source = if hist.len() == 1 { Some(self.texts[i0]) } else { None };
        let after_partial = hist.iter().any(|a| matches!(a, Act::Partial(_)));
        let bad = check_state(&cur, source, after_partial, &mut out.steps);
        for (s, w) in bad {
            if s == "SKIP" {
                out.key = "unprintable-literal(excluded by the statement)".into();
                out.terminal = true;
                return out;
            }
            out.bad.push((s, format!("{}: {w}", self.describe(hist))));
        }
        out.key = cur.dump();
        out
    }
}

pub fn run(tier: Tier) -> i32 {
    let mut rep = Report::new("C12", tier);
    rep.rule = "explicit-state exploration: state = expression reached by parse + up to k transformations from {convert flat<->deep, operate_unary, operate_binary with a pool, subs, partial}; in every state: a parsed FlatEx prints its source text; the printed text parses back (same form) with the same variables and the same value, iterated to the fixpoint of unparse->parse; serde_json round trip of every flat expression through from_str, from_reader and from_value (variable names that need JSON escapes included); data types: symbolic (total Debug/FromStr round trip) and f64 restricted to plain-decimal printed literals; distinct = unique structural dumps; non-trivial = at least one transformation".into();
    rep.assumptions = vec!["f64 states whose printed text contains an exponent or non-finite literal are excluded by the statement and counted as terminal".into()];
    install_panic_hook();
    let k = if tier.thorough() { 5 } else { 4 };
    let sym_texts: Vec<&'static str> = vec!["x", "1", "x+y", "x*1-y", "f(x)", "-x^2", "sin(x+1)*y", "x mx y", "mx(x,1)/y", "{a b}+C", "--x", "f sin x", "(x+1)*(y-2)", "x/y/2", "1+2+x+3", "ln(x)^y", "{ y}-x", "{x }*2+x", "{a\"b}+x", "{a\\b}*{tab\there}"];
    let m = RoundTrip::<Sym> { texts: Arc::new(sym_texts), pool: Arc::new(vec!["y", "1", "x*2", "f(z)"]), uns: vec!["-", "f", "sin"], bins: vec!["+", "-", "/", "mx"], max_len: k, _t: Default::default() };
    explore(m, &mut rep, "c12", "symbolic");
    let f_texts: Vec<&'static str> = vec!["x", "1.5", "x+y", "x*0.5-y", "sin(x)", "-x^2", "sin(x+1)*y", "max(x,1)/y", "{a b}+PI", "--x", "cos sin x", "(x+1)*(y-2)", "x/y/2", "1+2+x+3", "ln(x)^y", "x min y", "atan2(x,y)+e", "{ y}-x", "{x }*2+x", "{a\"b}+x", "{a\\b}*{tab\there}"];
    let m = RoundTrip::<f64> { texts: Arc::new(f_texts), pool: Arc::new(vec!["y", "2", "x*0.5", "cos(z)"]), uns: vec!["-", "sqrt", "sin"], bins: vec!["+", "-", "/", "^", "max"], max_len: k, _t: Default::default() };
    explore(m, &mut rep, "c12", "f64");
    // large expressions (more than 255 operands / variables / nesting levels on the way down),
    // parsed and converted once
    let chain = |n: usize, f: &dyn Fn(usize) -> String, op: &str| -> &'static str { intern(&(0..n).map(f).collect::<Vec<_>>().join(op)) };
    let big: Vec<&'static str> = vec![
        chain(300, &|i| format!("v{i:03}"), "+"),
        chain(300, &|i| if i % 3 == 0 { "2".to_string() } else { format!("{{n {}}}", i % 7) }, "*"),
        chain(257, &|i| format!("f(x{})", i % 5), "-"),
        intern(&format!("{}x{}", "(1+".repeat(130), "*y)".repeat(130))),
        intern(&format!("{}x{}", "f(-(".repeat(130), "))".repeat(130))),
    ];
    let m = RoundTrip::<Sym> { texts: Arc::new(big), pool: Arc::new(vec!["y"]), uns: vec!["-"], bins: vec!["+"], max_len: 2, _t: Default::default() };
    explore(m, &mut rep, "c12", "symbolic, 5 large texts (300 operands, 300 occurrences of 7 braced names, 257 function calls, 130 nesting levels), one transformation");
    rep.finish()
}
